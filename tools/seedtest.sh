#!/bin/bash
# tools/seedtest.sh <seed-worktree> <name> <prop> [<prop>...]
# 1. confirms the seeded change: existing tests pass with it, demo fails with it and passes without it
# 2. runs the given property checks against the worktree (VERIF_REPO) and records their exit codes
# 3. stores patch, demo and meta.json under /verif/seeded/<name>/
WT=$1; NAME=$2; shift 2
TMPD=$(mktemp -d /tmp/seedtest.XXXXXX); trap 'rm -rf $TMPD' EXIT
export GOFLAGS=-mod=mod GOPROXY=off GOSUMDB=off GOTOOLCHAIN=local
cd "$WT" || exit 2
PATCH=_seed/patch.diff
[ -f $PATCH ] || { echo "no patch"; exit 2; }
MOD=$(grep '^+++ b/' $PATCH | head -1 | sed 's#+++ b/##; s#/.*##')
DEMO=$(ls _seed/*_test.go | head -1)
# the demonstration lives in the package of the (first) changed file
DEMOPKG=$(dirname $(grep '^+++ b/' $PATCH | head -1 | sed 's#+++ b/##'))
# ... unless its package clause names another package of the module
DPK=$(grep -m1 '^package ' $DEMO | awk '{print $2}' | sed 's/_test$//')
if ! grep -qs "^package $DPK\b" $DEMOPKG/*.go; then
  for d in $(find $MOD -type d -not -path '*/.*'); do
    if ls $d/*.go >/dev/null 2>&1 && grep -qs "^package $DPK\b" $(ls $d/*.go | grep -v _test.go | head -3); then DEMOPKG=$d; break; fi
  done
fi
DEMONAME=$(grep -o 'func Test[A-Za-z0-9_]*' $DEMO | head -1 | sed 's/func //')
# every test function of the demonstration file (their failures are expected with the change)
DEMOALL=$(grep -o 'func Test[A-Za-z0-9_]*' $DEMO | sed 's/func //' | paste -sd'|' | sed 's/|/\\|/g')
DEMORUN=$(grep -o 'func Test[A-Za-z0-9_]*' $DEMO | sed 's/func //' | paste -sd'|')
# make sure the worktree is exactly HEAD + patch + demo
git checkout -q -- . ; git apply $PATCH || { echo "patch does not apply"; exit 2; }
cp $DEMO $DEMOPKG/ 2>/dev/null
echo "== module $MOD demo $DEMONAME in $DEMOPKG"
( cd $MOD && go vet ./... >/dev/null 2>&1; unshare -rn sh -c "ip link set lo up; go test -vet=off -count=1 ./... 2>&1" | grep -v "^ok\|no test files" | grep -v "$DEMOALL" | grep "^--- FAIL\|^FAIL" | grep -v "TestValidFlags" | head ) > $TMPD/seed_base.txt
BASE_FAIL_OTHER=$(grep -c "^--- FAIL" $TMPD/seed_base.txt)
# the repository's own test_grpc / deadline tests are timing-sensitive on a loaded machine: a failure
# there is re-run (up to twice); only a test that fails every time counts as broken by the change
for retry in 1 2; do
  [ "$BASE_FAIL_OTHER" -gt 0 ] || break
  ( cd $MOD && unshare -rn sh -c "ip link set lo up; go test -vet=off -count=1 ./... 2>&1" | grep -v "^ok\|no test files" | grep -v "$DEMOALL" | grep "^--- FAIL\|^FAIL" | grep -v "TestValidFlags" | head ) > $TMPD/seed_base_retry.txt
  N=$(grep -c "^--- FAIL" $TMPD/seed_base_retry.txt)
  if [ "$N" -lt "$BASE_FAIL_OTHER" ]; then BASE_FAIL_OTHER=$N; cp $TMPD/seed_base_retry.txt $TMPD/seed_base.txt; fi
done
( cd $DEMOPKG && go test -vet=off -count=1 -run "^($DEMORUN)\$" . 2>&1 | tail -3 ) > $TMPD/seed_demo_with.txt
WITH=$(grep -c "^FAIL\|--- FAIL" $TMPD/seed_demo_with.txt)
git apply -R $PATCH
( cd $DEMOPKG && go test -vet=off -count=1 -run "^($DEMORUN)\$" . 2>&1 | tail -3 ) > $TMPD/seed_demo_without.txt
WITHOUT_OK=$(grep -c "^ok" $TMPD/seed_demo_without.txt)
git apply $PATCH
echo "existing tests failing besides the demo: $BASE_FAIL_OTHER ; demo fails with change: $WITH ; demo passes without: $WITHOUT_OK"
cat $TMPD/seed_base.txt | head -5
RES=""
for P in "$@"; do
  ( cd /verif && VERIF_REPO=$WT bin/symgo check -prop $P -tier quick > $TMPD/seed_check_$P.log 2>&1 ); RC=$?
  V=$(grep -c "^VIOLATION" $TMPD/seed_check_$P.log)
  echo "check $P exit=$RC violations=$V : $(grep '^  ' $TMPD/seed_check_$P.log | head -2 | cut -c1-200 | tr '\n' '|')"
  RES="$RES\"$P\": {\"exit\": $RC, \"violations\": $V},"
done
mkdir -p /verif/seeded/$NAME
cp $PATCH /verif/seeded/$NAME/patch.diff; cp $DEMO /verif/seeded/$NAME/; cp _seed/notes.md /verif/seeded/$NAME/notes.md 2>/dev/null
cat > /verif/seeded/$NAME/meta.json <<EOM
{"name": "$NAME", "module": "$MOD", "demo_test": "$DEMONAME", "demo_package": "$DEMOPKG",
 "confirmed": {"existing_tests_failing_with_change": $BASE_FAIL_OTHER, "demo_fails_with_change": $WITH, "demo_passes_without_change": $WITHOUT_OK},
 "checks_run": {${RES%,}},
 "how_run": "tools/seedtest.sh: go test ./... in the module with the change; go test -run <demo> with and without (git apply -R); ./check <prop> quick with VERIF_REPO pointing at the scratch worktree (equivalent to git -C /repo apply + check + checkout)"}
EOM
