#!/bin/bash
# compile every harness against /repo with the overlay (no symbolic run): catches harness compile errors early
cd "$(dirname "$0")/.." || exit 2
for spec in "grpcgcp grpcgcp VerifH_cnt" "grpcgcp/multiendpoint multiendpoint VerifH_me" "e2e-checksum e2e-checksum VerifH_ck" "spanner_prober/prober prober VerifH_payload" "spanner_prober spanner_prober VerifH_flags"; do
  set -- $spec
  out=$(bin/symgo run -dir $1 -harness $2 -entry $3 -flag size=0 -flag n0=1 -flag steps=1 2>&1 | grep "status=" | sed 's/ load=.*//')
  echo "$1: $out"
done
