#!/usr/bin/env python3
"""Regenerates /verif/MANIFEST.json from the table below (kept in one place so the file stays valid)."""
import json, os, sys
ROOT = os.path.dirname(os.path.dirname(os.path.abspath(__file__)))
TECH = "bounded symbolic execution of the real code's Go SSA (symgo: guarded single-pass execution with state merging) into QF_BV SMT; verdict by cvc5 1.0.3 with z3 5.1.0 as fallback/cross-check; counterexamples and witnesses replayed natively through the same harness"
BASE_NOTE = ("Trusted: go/ssa (x/tools v0.29.0) as the semantics of the working tree, the symgo executor, cvc5/z3, and the environment stubs listed in DESIGN.md section 4 "
             "(fake balancer.ClientConn/SubConn, ghost mutexes, virtual clock, opaque logging/formatting). Bounded claim: universe sizes, loop unrollings and value ranges are in the evidence file under coverage.bounds. ")
CHECKS = {
 "C04": dict(text="Inductive step (P1): from every balancer state of the bounded universe satisfying the representation invariant Inv_gb, one real UpdateSubConnState call with a symbolic connection and state re-establishes the counter/aggregate/picker invariants and publishes when it must; recordTransition step lemma on 64-bit counters. All obligations are SMT queries over the SSA of the working tree.",
             ref="DESIGN.md section 6 C04, section 5.1", note="Universe: 2 existing + 2 fresh connections, 3 slots."),
}
NA = {}
props = [json.loads(l)["id"] for l in open(os.path.join(ROOT, "properties.jsonl"))]
checks, na = [], []
for pid in props:
    if pid in CHECKS:
        c = CHECKS[pid]
        checks.append({
            "property_id": pid,
            "quick_cmd": f"./check {pid} quick",
            "thorough_cmd": f"./check {pid} thorough",
            "evidence_file": f"/verif/evidence/{pid}.json",
            "replay_cmd_template": "./check --replay {path}",
            "engine": "symgo",
            "level_claimed": {"category": c.get("level", "model_checking"), "text": c["text"], "design_ref": c["ref"]},
            "level_note": BASE_NOTE + c["note"],
            "technique": c.get("tech", TECH),
        })
    else:
        na.append({"property_id": pid, "reason": NA.get(pid, "check not yet registered at this commit (work in progress; see DESIGN.md section 6 for the planned solver-based check)")})
m = {
 "version": 1,
 "setup_cmd": "cd /verif/engine && GOFLAGS=-mod=mod GOPROXY=off GOSUMDB=off GOTOOLCHAIN=local go build -o ../bin/symgo .",
 "hooks": {"guard": "verif", "enable": "harness files (//go:build verif && go1.21) are injected into the package under test through go/packages and `go test -overlay` overlays built at run time; /repo itself carries no hook", "baseline_off_cmd": json.load(open("/root/.vp/BASELINE.json"))["cmd"], "source_commits": [], "add_only": True},
 "engines": [{"name": "symgo", "path": "/verif/engine", "serves_properties": [c["property_id"] for c in checks], "kind_free_text": "Go SSA -> SMT (QF_BV/QF_FPBV) bounded symbolic executor with state merging, written for this task; solvers cvc5 1.0.3 (primary) and z3 5.1.0 (fallback, cross-check)"}],
 "checks": checks,
 "not_applicable": na,
 "notes": "Exit codes of ./check: 0 held (KNOWN-FINDING lines allowed), 1 violation reproduced natively (VIOLATION line), 2 inconclusive (never a verdict). Known findings: /verif/known_findings.json.",
}
json.dump(m, open(os.path.join(ROOT, "MANIFEST.json"), "w"), indent=1)
print("checks:", len(checks), "not_applicable:", len(na))
