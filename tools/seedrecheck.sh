#!/bin/bash
# tools/seedrecheck.sh <seeded-name> <prop> [...] : re-validates a stored seeded change against the
# CURRENT /repo HEAD in a fresh scratch worktree (removed afterwards) and rewrites its meta.json
NAME=$1; shift
S=/verif/seeded/$NAME
WT=/tmp/recheck_$NAME
git -C /repo worktree remove --force $WT 2>/dev/null
git -C /repo worktree add -q $WT HEAD || exit 2
mkdir -p $WT/_seed && cp $S/patch.diff $S/*_test.go $WT/_seed/ && cp $S/notes.md $WT/_seed/ 2>/dev/null
/verif/tools/seedtest.sh $WT $NAME "$@"
git -C /repo worktree remove --force $WT
