//go:build verif && go1.21

package verifrt

import (
	"fmt"
	"os"
	"strings"
	"testing"
	"time"
)

// verifRunOnce runs one harness entry natively and classifies how it ended.
func verifRunOnce(f func(), hang time.Duration) string {
	done := make(chan string, 1)
	go func() {
		defer func() {
			if r := recover(); r != nil {
				switch x := r.(type) {
				case verifAssumeFailed:
					done <- "assume"
				case verifAssertFailed:
					done <- "assert:" + x.label
				default:
					done <- "panic:" + strings.ReplaceAll(fmt.Sprint(r), "\n", " ")
				}
				return
			}
			done <- "returned"
		}()
		f()
	}()
	select {
	case o := <-done:
		return o
	case <-time.After(hang):
		return "hang"
	}
}

func TestVerifReplay(t *testing.T) {
	for _, path := range strings.Split(os.Getenv("VERIF_REPLAY"), ":") {
		if path == "" {
			continue
		}
		fmt.Printf("VERIF-FILE %s\n", path)
		verifReplayOne(t, path)
	}
}

func verifReplayOne(t *testing.T, path string) {
	verifModel = map[string]uint64{}
	verifFModel = map[string]float64{}
	verifStrConst = map[uint64]string{}
	verifFlags = map[string]bool{}
	rf, err := verifLoad(path)
	if err != nil {
		fmt.Printf("VERIF-ERROR %v\n", err)
		return
	}
	f := verifEntries[rf.Entry]
	if f == nil {
		fmt.Printf("VERIF-ERROR no entry %s\n", rf.Entry)
		return
	}
	tries := rf.Tries
	if tries <= 0 {
		tries = 1
	}
	for i := 0; i < tries; i++ {
		verifFresh = map[string]int{}
		verifObserved = nil
		verifObsCnt = map[string]int{}
		verifCasOps, verifCasDeltas = 0, map[*int32]int32{}
		o := verifRunOnce(f, 3*time.Second)
		fmt.Printf("VERIF-OUTCOME %s\n", o)
		fmt.Printf("VERIF-OBSERVED %s\n", strings.Join(verifObserved, " "))
		ok := false
		switch rf.Kind {
		case "assert":
			ok = o == "assert:"+rf.Label
		case "panic":
			ok = strings.HasPrefix(o, "panic:")
		case "deadlock", "spin":
			ok = o == "hang"
		case "witness", "race":
			ok = o == "returned"
		}
		if ok {
			fmt.Printf("VERIF-REPRODUCED try=%d\n", i)
			return
		}
		if o == "hang" {
			break // a leaked goroutine may hold locks; do not retry in this process
		}
	}
	fmt.Printf("VERIF-NOT-REPRODUCED\n")
}
