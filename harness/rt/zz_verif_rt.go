//go:build verif && go1.21

// Shared harness runtime.  Under the symbolic executor every function below is intercepted by
// name; the bodies are what the same harness does when it is compiled natively to replay a
// solver model against the real build.
package verifrt

import (
	"encoding/json"
	"fmt"
	"math"
	"os"
	"strconv"
	"strings"
	"sync"
	"sync/atomic"
	"time"
)

var (
	verifModel    = map[string]uint64{}
	verifFModel   = map[string]float64{}
	verifStrConst = map[uint64]string{}
	verifFlags    = map[string]bool{}
	verifFresh    = map[string]int{}
	verifObserved []string
)

func verifKey(name string) string {
	if strings.HasSuffix(name, "@") {
		verifFresh[name]++
		return name + "#" + strconv.Itoa(verifFresh[name])
	}
	return name
}

func verifBool(name string) bool  { return verifModel[verifKey(name)] != 0 }
func verifU8(name string) uint8   { return uint8(verifModel[verifKey(name)]) }
func verifU32(name string) uint32 { return uint32(verifModel[verifKey(name)]) }
func verifI32(name string) int32  { return int32(verifModel[verifKey(name)]) }
func verifU64(name string) uint64 { return verifModel[verifKey(name)] }
func verifI64(name string) int64  { return int64(verifModel[verifKey(name)]) }
func verifInt(name string) int    { return int(verifModel[verifKey(name)]) }
func verifF64(name string) float64 {
	return verifFModel[verifKey(name)]
}
func verifStr(name string) string {
	id := verifModel[verifKey(name)] & 0xffffffff
	if id == 0 {
		return ""
	}
	if s, ok := verifStrConst[id]; ok {
		return s
	}
	return fmt.Sprintf("s%x", id)
}
// verifStrBuild: symbolically an opaque string like verifStr; natively the string is built by the
// harness from other model values, so that library functions (regexp, prefix tests) see real text.
func verifStrBuild(name string, build func() string) string {
	if id := verifModel[name] & 0xffffffff; id != 0 {
		if s, ok := verifStrConst[id]; ok {
			return s // a concrete string supplied by the replay file (pattern P7)
		}
	}
	return build()
}

func verifTime(name string) time.Time { return time.Unix(0, int64(verifModel[verifKey(name)])) }

type verifAssumeFailed struct{}

func verifAssume(c bool) {
	if !c {
		panic(verifAssumeFailed{})
	}
}

type verifAssertFailed struct{ label string }

var verifProp string

// verifLabelFor: an assertion label "C01,C08: text" concerns property id; labels without a
// property prefix concern every property (same rule as the executor's).
func verifLabelFor(label, id string) bool {
	i := strings.Index(label, ":")
	if id == "" || i < 0 || !strings.HasPrefix(label, "C") {
		return true
	}
	for _, x := range strings.Split(label[:i], ",") {
		if strings.TrimSpace(x) == id {
			return true
		}
	}
	return false
}

func verifAssert(c bool, label string) {
	if !verifLabelFor(label, verifProp) {
		return
	}
	if !c {
		panic(verifAssertFailed{label})
	}
}
func verifKnown(id string, c bool) {}
func verifReach(label string)      {}
// verifLocksFree: symbolically "no ghost lock is held"; natively the harness world registers a
// probe that TryLocks the mutexes it knows about.
var verifLockProbe func() bool

func verifLocksFree() bool {
	if verifLockProbe != nil {
		return verifLockProbe()
	}
	return true
}
func verifFlag(name string) bool   { return verifFlags[name] }

// verifSymbolic is true in the symbolic run only (obligations over ghost state of summaries that
// exist only there).
func verifSymbolic() bool { return false }
func verifCase(name string) int {
	for f := range verifFlags {
		if strings.HasPrefix(f, name+"=") {
			v, _ := strconv.Atoi(f[len(name)+1:])
			return v
		}
	}
	return int(verifModel[name])
}

var verifObsCnt = map[string]int{}

func verifObserve(name string, v uint64) {
	verifObserved = append(verifObserved, fmt.Sprintf("%s#%d=%d", name, verifObsCnt[name], v))
	verifObsCnt[name]++
}
func verifChoose[T any](name string, xs ...T) T { return xs[verifModel[verifKey(name)]] }
func verifMapPut[K comparable, V any](m map[K]V, k K, v V, present bool) {
	if present {
		m[k] = v
	}
}

func verifAnd(a, b bool) bool     { return a && b }
func verifOr(a, b bool) bool      { return a || b }
func verifImplies(a, b bool) bool { return !a || b }
func verifB2U(b bool) uint64 {
	if b {
		return 1
	}
	return 0
}
func verifD(i int) string { return strconv.Itoa(i) }

func verifOrElse[T comparable](p, d T) T {
	var z T
	if p == z {
		return d
	}
	return p
}

func verifRecord(tag string) {}
func verifSnapshot()         {}
func verifRestore()          {}
func verifRaceCandidates()   {}

// verifReplayFile is what the engine writes for a native replay.
type verifReplayFile struct {
	Entry   string            `json:"entry"`
	Kind    string            `json:"kind"`
	Label   string            `json:"label"`
	Model   map[string]string `json:"model"`
	Strings map[string]string `json:"strings"`
	Flags   []string          `json:"flags"`
	Tries   int               `json:"tries"`
	Prop    string            `json:"prop"`
}

func verifLoad(path string) (*verifReplayFile, error) {
	raw, err := os.ReadFile(path)
	if err != nil {
		return nil, err
	}
	rf := &verifReplayFile{}
	if err := json.Unmarshal(raw, rf); err != nil {
		return nil, err
	}
	for k, v := range rf.Model {
		switch {
		case v == "true":
			verifModel[k] = 1
		case v == "false":
			verifModel[k] = 0
		case strings.HasPrefix(v, "#x"):
			u, _ := strconv.ParseUint(v[2:], 16, 64)
			verifModel[k] = u
		case strings.HasPrefix(v, "#b"):
			u, _ := strconv.ParseUint(v[2:], 2, 64)
			verifModel[k] = u
		case strings.HasPrefix(v, "float:"):
			f, _ := strconv.ParseFloat(v[6:], 64)
			verifFModel[k] = f
		case strings.HasPrefix(v, "(fp "):
			f := strings.Fields(strings.Trim(v, "()"))
			if len(f) == 4 {
				bits := f[1][2:] + f[2][2:] + f[3][2:]
				u, _ := strconv.ParseUint(bits, 2, 64)
				verifFModel[k] = math.Float64frombits(u)
			}
		case strings.HasPrefix(v, "(_ +zero"):
			verifFModel[k] = 0
		case strings.HasPrefix(v, "(_ -zero"):
			verifFModel[k] = math.Copysign(0, -1)
		case strings.HasPrefix(v, "(_ +oo"):
			verifFModel[k] = math.Inf(1)
		case strings.HasPrefix(v, "(_ -oo"):
			verifFModel[k] = math.Inf(-1)
		case strings.HasPrefix(v, "(_ NaN"):
			verifFModel[k] = math.NaN()
		}
	}
	for id, s := range rf.Strings {
		u, _ := strconv.ParseUint(id, 10, 64)
		verifStrConst[u] = s
	}
	for _, f := range rf.Flags {
		verifFlags[f] = true
	}
	verifProp = rf.Prop
	return rf, nil
}

func verifBatch(on bool) {}

func verifNarrow[T any](v T) T { return v }

func verifFairSelect(on bool) {}

func verifGuardedBy(cell, mu interface{}, name string) {}

// verifPar: natively the two operations run in two goroutines (under the race detector in race
// replays); panics inside them are contained.
func verifPar(a, b func()) {
	done := make(chan struct{}, 2)
	run := func(f func()) {
		defer func() { recover(); done <- struct{}{} }()
		f()
	}
	go run(a)
	go run(b)
	for i := 0; i < 2; i++ {
		select {
		case <-done:
		case <-time.After(3 * time.Second):
		}
	}
}
// verifSetInt stores v in an integer cell of any integer type (the harness does not depend on the
// exact type the code under test gives a counter).
func verifSetInt[T ~int32 | ~uint32 | ~int64 | ~uint64 | ~int | ~uint](p *T, v uint64) { *p = T(v) }

// verifBytesEqual: two byte slices of concrete length are equal (one term for the executor).
func verifBytesEqual(a, b []byte) bool { return string(a) == string(b) }

// verifCondBroadcasts / verifNeedsWaiter: ghost view of a condition variable (symbolic run only).
func verifCondBroadcasts(c *sync.Cond) int      { return 0 }
func verifNeedsWaiter(c *sync.Cond, since int) {}

// verifCAS32 stands in for atomic.CompareAndSwapInt32 in native replays: the interference another
// goroutine makes between the caller's earlier read and the operation (the model says whether, and
// in which direction) is applied first.  verifCasDelta is the sum of interference per cell.
var verifCasDeltas = map[*int32]int32{}
var verifCasOps int

func verifCAS32(p *int32, old, new int32) bool {
	verifCasOps++
	if verifCasOps <= 1 && verifBool("casInterfered@") {
		atomic.AddInt32(p, 1) // another call was started on the channel in between
		verifCasDeltas[p]++
	}
	return atomic.CompareAndSwapInt32(p, old, new)
}
func verifCasDelta(p *int32) int32 { return verifCasDeltas[p] }

func verifResetLocks() {}
func verifLockHookFrom(n int) {}
