//go:build verif && go1.21

package prober

import (
	"bytes"
	"crypto/sha256"
	"strconv"
	"strings"
	"time"

	"google.golang.org/grpc/metadata"
)

// ---- backoff: bounded, monotone ----
func VerifH_backoff() {
	base := time.Duration(verifInt("base"))
	max := time.Duration(verifInt("max"))
	r := verifInt("retries")
	verifAssume(base > 0 && base <= max && max < 1<<53) // exact int<->float64 region
	verifAssume(max <= base*25)                         // at most 8 multiplications by 1.5 (covers the deployed 200ms / 5s)
	verifAssume(r >= 0 && r < 1<<62)
	res := backoff(base, max, r)
	verifReach("after")
	verifAssert(res >= base, "C18: backoff below the base delay")
	verifAssert(res <= max, "C18: backoff above the maximum delay")
	res2 := backoff(base, max, r+1)
	verifAssert(res2 >= res, "C18: backoff decreases when the retry count grows")
	verifObserve("res", uint64(res))
	verifObserve("res2", uint64(res2))
}

// the deployed constants: every retry count
func VerifH_backoffconst() {
	r := verifInt("retries")
	verifAssume(r >= 0)
	res := backoff(baseLRORetryDelay, maxLRORetryDelay, r)
	verifAssert(res >= baseLRORetryDelay && res <= maxLRORetryDelay, "C18: backoff of the deployed base/max leaves [base, max]")
	verifAssert(verifImplies(r == 0, res == baseLRORetryDelay), "C18: first retry does not use the base delay")
	verifReach("after")
	verifObserve("res", uint64(res))
}

// ---- probe interval of an accepted qps ----
func VerifH_interval() {
	q := verifF64("qps")
	verifAssume(q > 0 && q <= 1000) // what validateFlags accepts
	p := &Prober{qps: q}
	verifKnown("F-qps", q < 1e-9)
	iv := p.probeInterval()
	verifReach("after")
	verifAssert(iv > 0, "C18: accepted qps gives a non-positive probe interval")
	verifObserve("positive", verifB2U(iv > 0))
}

// ---- GFE latency header parsing ----
func vMD(tag string) metadata.MD {
	md := metadata.MD{}
	n := verifInt(tag + "_n")
	verifAssume(n >= 0 && n <= 2)
	vals := []string{verifStr(tag + "_v0"), verifStr(tag + "_v1")}[:n]
	switch verifInt(tag + "_kind") {
	case 0: // key absent
	case 1:
		md[serverTimingKey] = vals
	default:
		md["other-key"] = vals
	}
	return md
}

func VerifH_t4t7() {
	var headers, trailers metadata.MD
	if !verifBool("headersNil") {
		headers = vMD("h")
	}
	if !verifBool("trailersNil") {
		trailers = vMD("t")
	}
	got, err := parseT4T7Latency(headers, trailers)
	verifReach("after")
	// reference: header list if non-empty, else trailer list, else error; first entry with the prefix decides
	var list []string
	if len(headers[serverTimingKey]) > 0 {
		list = headers[serverTimingKey]
	} else if len(trailers[serverTimingKey]) > 0 {
		list = trailers[serverTimingKey]
	}
	var want time.Duration
	ok := false
	decided := false
	for i := 0; i < 2; i++ {
		if i < len(list) && !decided && strings.HasPrefix(list[i], gfeT4T7prefix) {
			decided = true
			ms, perr := strconv.ParseInt(strings.TrimPrefix(list[i], gfeT4T7prefix), 10, 64)
			if perr == nil {
				ok = true
				want = time.Duration(ms) * time.Millisecond
			}
		}
	}
	verifAssert((err == nil) == ok, "C18: GFE latency parsing succeeds/fails differently from 'first gfet4t7 entry of the header (else trailer) list'")
	if ok {
		verifReach("parsed")
		verifAssert(err == nil && got == want, "C18: GFE latency is not the duration of the first gfet4t7 entry")
	} else {
		verifAssert(got == 0, "C18: non-zero latency returned with an error")
	}
	verifObserve("err", verifB2U(err != nil))
}

// ---- generated payloads carry their SHA-256 ----
func verifHashArgsOK(payload, sum []byte) bool {
	h := sha256.Sum256(payload)
	return bytes.Equal(h[:], sum)
}

func VerifH_payload() {
	size := verifCase("size")
	payload, hash, err := generatePayload(size)
	verifReach("after")
	verifAssert(err == nil, "C18: generatePayload failed")
	verifAssert(len(payload) == size && len(hash) == 32, "C18: payload or hash of the wrong length")
	verifAssert(verifHashArgsOK(payload, hash), "C18: generated payload does not carry its SHA-256 hash")
	// every payload carries its own hash - also the second one generated in a process
	payload2, hash2, err2 := generatePayload(verifCase("size2"))
	verifAssert(err2 == nil && len(hash2) == 32, "C18: second generatePayload failed")
	verifAssert(verifHashArgsOK(payload2, hash2), "C18: a payload generated later in the same process does not carry its SHA-256 hash")
	verifObserve("len", uint64(len(payload)))
}

// The same contract on concrete header texts: every entry is a choice among representative
// strings, so that HasPrefix / TrimPrefix / ParseInt are evaluated with their real semantics and
// a counterexample replays natively as is.  The expected meaning of each text is tabulated here.
const vNEntries = 19

type vEntry struct {
	s      string
	is, wf bool // is a gfet4t7 entry; its duration text is a well-formed integer
	ms     int64
}

func vEntryChoice(tag string) vEntry {
	i := verifInt(tag)
	verifAssume(i >= 0 && i < vNEntries)
	texts := []string{"gfet4t7; dur=45", "gfet4t7; dur=123", "gfet4t7; dur=7", "gfet4t7; dur=0", "gfet4t7; dur=", "gfet4t7; dur=x1", "gfet4t7; dur= 12",
		"gfet4t7; dur=dur=5", "gfet4t7; dur=-3", "gfet4t7; dur=47", "other; dur=9", "", "gfet4t7", "xgfet4t7; dur=8", "gfet4t7; dur=99999999999999999999",
		"gfet4t7; dur=010", "gfet4t7; dur=08", "gfet4t7; dur=0x10", "gfet4t7; dur=1_000"} // decimal only: leading zeros are decimal, base prefixes and underscores malformed
	is := []bool{true, true, true, true, true, true, true, true, true, true, false, false, false, false, true, true, true, true, true}
	wf := []bool{true, true, true, true, false, false, false, false, true, true, false, false, false, false, false, true, true, false, false}
	ms := []int64{45, 123, 7, 0, 0, 0, 0, 0, -3, 47, 0, 0, 0, 0, 0, 10, 8, 0, 0}
	return vEntry{s: texts[i], is: is[i], wf: wf[i], ms: ms[i]}
}

func VerifH_t4t7c() {
	var hs, ts []vEntry
	mk := func(tag string) (metadata.MD, []vEntry) {
		md := metadata.MD{}
		n := verifInt(tag + "_n")
		verifAssume(n >= 0 && n <= 2)
		es := []vEntry{vEntryChoice(tag + "_v0"), vEntryChoice(tag + "_v1")}[:n]
		vals := []string{}
		for i := 0; i < 2; i++ {
			if i < n {
				vals = append(vals, es[i].s)
			}
		}
		switch verifInt(tag + "_kind") {
		case 0:
			return md, nil
		case 1:
			md[serverTimingKey] = vals
			return md, es
		}
		md["other-key"] = vals
		return md, nil
	}
	headers, hs := mk("h")
	trailers, ts := mk("t")
	got, err := parseT4T7Latency(headers, trailers)
	verifReach("after")
	list := hs
	if len(hs) == 0 {
		list = ts
	}
	var want time.Duration
	ok, decided := false, false
	for i := 0; i < 2; i++ {
		if i < len(list) && !decided && list[i].is {
			decided = true
			if list[i].wf {
				ok, want = true, time.Duration(list[i].ms)*time.Millisecond
			}
		}
	}
	verifAssert((err == nil) == ok, "C18: GFE latency parsing succeeds/fails differently from 'first gfet4t7 entry of the header (else trailer) list'")
	if ok {
		verifReach("parsed")
		verifAssert(err == nil && got == want, "C18: GFE latency is not the duration of the first gfet4t7 entry")
	}
	verifObserve("err", verifB2U(err != nil))
	verifObserve("ms", uint64(got/time.Millisecond))
}

// Resource names: for a table of component values that flag validation accepts (the regular
// expressions admit letters, digits, '-', '_', '.', and the empty string - so also ".", ".." and ""),
// every resource name has exactly the segments projects/<project>/instances/<instance>/databases/<database>,
// byte for byte: nothing the builders do (cleaning, joining, escaping) may drop or merge a segment.
// The component values are concrete per combination; which combination is a solver variable.
func VerifH_uri() {
	vals := []string{"a1", "x.y", ".", "..", "", "-_-", "a..b"}
	pi, ii, di := verifInt("projectIdx"), verifInt("instanceIdx"), verifInt("databaseIdx")
	verifAssume(pi >= 0 && pi < 7 && ii >= 0 && ii < 7 && di >= 0 && di < 7)
	for a := 0; a < 7; a++ {
		for b := 0; b < 7; b++ {
			for c := 0; c < 7; c++ {
				if pi != a || ii != b || di != c {
					continue
				}
				verifReach("combination")
				opt := &ProberOptions{Project: vals[a], Instance: vals[b], Database: vals[c], InstanceConfig: vals[c]}
				want := "projects/" + vals[a] + "/instances/" + vals[b] + "/databases/" + vals[c]
				verifAssert(opt.databaseURI() == want, "C18: database resource name does not consist of exactly the supplied project, instance and database segments")
				verifAssert(opt.instanceURI() == "projects/"+vals[a]+"/instances/"+vals[b], "C18: instance resource name does not consist of exactly the supplied project and instance segments")
				verifAssert(opt.projectURI() == "projects/"+vals[a], "C18: project resource name does not consist of exactly the supplied project segment")
				verifAssert(opt.instanceConfigURI() == "projects/"+vals[a]+"/instanceConfigs/"+vals[c], "C18: instance config resource name does not consist of exactly the supplied segments")
			}
		}
	}
	verifObserve("p", uint64(pi))
}
