//go:build verif && go1.21

package main

import (
	"strings"

	proberlib "spanner_prober/prober"
)

// validateFlags with every flag a symbolic cell.  Which strings the regular expressions accept is
// decided separately by pattern P7 (string solver on the literals of the current source); here the
// regular-expression tests are uninterpreted and the obligation is that an accepted flag set has
// passed one of them for every resource-name component, parses as a probe type and has 0 < qps <= 1000.
func VerifH_flags() {
	// natively the strings are built so that the real regexp engine agrees with the model:
	// "<flag>_ok" names the (uninterpreted) outcome of the regular-expression test
	pOK, iOK, dOK, cOK := verifBool("project_ok"), verifBool("instance_name_ok"), verifBool("database_name_ok"), verifBool("instanceConfig_ok")
	mk := func(ok bool) func() string {
		return func() string {
			if ok {
				return "name-1"
			}
			return "bad/seg"
		}
	}
	p, i, d, c := verifStrBuild("project", mk(pOK)), verifStrBuild("instance_name", mk(iOK)), verifStrBuild("database_name", mk(dOK)), verifStrBuild("instanceConfig", mk(cOK))
	o, pt := verifStr("opsProject"), verifStr("probeType")
	if verifFlag("ptTable") {
		// the probe type from a table of concrete spellings (the six names, case variants, padded,
		// empty, near misses): string transformations applied to the flag before or after
		// validation are executed on them, which an opaque string cannot show
		pt = verifChoose("probeTypeK", "noop", "stale_read", "strong_query", "stale_query", "dml", "read_write",
			"Noop", "NOOP", "Stale_Read", "DML", "Read_Write", " noop", "noop ", "", "read-write", "nope")
	}
	q := verifF64("qps")
	n, ps := verifInt("numRows"), verifInt("payloadSize")
	project, opsProject, instance_name, database_name, instanceConfig, probeType = &p, &o, &i, &d, &c, &pt
	qps, numRows, payloadSize = &q, &n, &ps
	errs := validateFlags()
	verifReach("after")
	verifAssume(verifMatched(p) == pOK && verifMatched(i) == iOK && verifMatched(d) == dOK && verifMatched(c) == cOK)
	accepted := len(errs) == 0
	if accepted {
		verifReach("accepted")
		verifAssert(verifMatched(p) && verifMatched(i) && verifMatched(d) && verifMatched(c), "C18: accepted flag set whose project/instance/database/instance_config did not pass a regular-expression test")
		_, perr := proberlib.ParseProbeType(pt)
		verifAssert(perr == nil, "C18: accepted flag set with an unparsable probe type")
		verifKnown("F-qps", q != q) // NaN passes "qps <= 0 || qps > 1000"
		verifAssert(q > 0 && q <= 1000, "C18: accepted qps outside (0, 1000]")
		verifAssert(n > 0 && ps > 0, "C18: accepted num_rows / payload_size not positive")
		// native replay of P7 counterexamples: the resource names really have extra segments
		opt := proberlib.ProberOptions{Project: p, Instance: i, Database: d, InstanceConfig: c}
		verifAssert(verifSegmentsOK(opt), "C18: resource name built from accepted flags has extra path segments")
	}
	vProbeTypes := []string{"noop", "stale_read", "strong_query", "stale_query", "dml", "read_write"}
	known := false
	for k := 0; k < 6; k++ {
		known = known || pt == vProbeTypes[k]
	}
	_, perr := proberlib.ParseProbeType(pt)
	verifAssert((perr == nil) == known, "C18: ParseProbeType accepts exactly the six probe types")
	verifObserve("accepted", verifB2U(accepted))
}

// verifMatched: symbolically "some regular expression compiled by the code matched s" (intrinsic);
// natively nothing to check (the real regexp engine ran).
func verifMatched(s string) bool { return !strings.Contains(s, "/") }

// verifSegmentsOK: natively counts path separators of the built resource names (what P7 decides
// symbolically on the extracted literals and formats).
func verifSegmentsOK(opt proberlib.ProberOptions) bool {
	return strings.Count(proberlib.VerifDatabaseURI(&opt), "/") == 5
}
