//go:build verif && go1.21

package prober

// exported accessor for the flags harness in package main
func VerifDatabaseURI(o *ProberOptions) string { return o.databaseURI() }
