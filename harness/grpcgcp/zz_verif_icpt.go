//go:build verif && go1.21

package grpcgcp

import (
	"context"
	"sync"
	"time"

	"google.golang.org/grpc"
	"google.golang.org/grpc/metadata"
)

type vUserKey struct{}

// vParentCtx is the caller's context: carries one user value, a deadline, a Done channel.
type vParentCtx struct {
	userVal interface{}
	// the caller's context may already carry a gcpContext: a call issued on the context of a
	// stream created through the stream interceptor, or from inside another intercepted call
	staleGcp *gcpContext
	dl      time.Time
	hasDl   bool
	done    chan struct{}
	err     error
}

func (c *vParentCtx) Value(k interface{}) interface{} {
	if _, ok := k.(vUserKey); ok {
		return c.userVal
	}
	if k == interface{}(gcpKey) && c.staleGcp != nil {
		return c.staleGcp
	}
	return nil
}
func (c *vParentCtx) Deadline() (time.Time, bool) { return c.dl, c.hasDl }
func (c *vParentCtx) Done() <-chan struct{}       { return c.done }
func (c *vParentCtx) Err() error                  { return c.err }

var _ context.Context = (*vParentCtx)(nil)

func vMkParent() *vParentCtx {
	p := &vParentCtx{userVal: verifStr("userVal"), dl: verifTime("parentDeadline"), hasDl: verifBool("parentHasDeadline"), done: make(chan struct{})}
	if verifBool("parentCarriesGcpContext") {
		p.staleGcp = &gcpContext{reqMsg: &verifMsg{}}
	}
	return p
}

// ---- unary interceptor: transparent, hands request and reply to the picker ----
func VerifH_unary() {
	parent := vMkParent()
	method := verifStr("method")
	req, reply := &verifMsg{}, &verifMsg{}
	cc := &grpc.ClientConn{}
	nopts := verifInt("nopts")
	verifAssume(nopts >= 0 && nopts <= 2)
	opts := []grpc.CallOption{grpc.MaxRecvMsgSizeCallOption{MaxRecvMsgSize: verifInt("opt0")}, grpc.MaxRecvMsgSizeCallOption{MaxRecvMsgSize: verifInt("opt1")}}[:nopts]
	var invErr error
	if verifBool("invokerFails") {
		invErr = verifErr{}
	}
	calls := 0
	var gotCtx context.Context
	var gotMethod string
	var gotReq, gotReply interface{}
	var gotCC *grpc.ClientConn
	var gotOpts []grpc.CallOption
	inv := func(ctx context.Context, m string, rq, rp interface{}, c *grpc.ClientConn, o ...grpc.CallOption) error {
		calls++
		gotCtx, gotMethod, gotReq, gotReply, gotCC, gotOpts = ctx, m, rq, rp, c, o
		return invErr
	}
	// the caller's context may name a MultiEndpoint (NewMEContext): one more caller's value to preserve
	var callCtx context.Context = parent
	hasME := verifBool("callerNamesMultiEndpoint")
	if hasME {
		callCtx = NewMEContext(parent, "me-x")
	}
	err := GCPUnaryClientInterceptor(callCtx, method, req, reply, cc, inv, opts...)
	verifReach("after")
	verifAssert(calls == 1, "C12: unary interceptor did not call the invoker exactly once")
	verifAssert(err == invErr, "C12: unary interceptor did not return the invoker's error")
	verifAssert(gotMethod == method && gotReq == interface{}(req) && gotReply == interface{}(reply) && gotCC == cc, "C12: unary interceptor changed method, request, reply or connection")
	verifAssert(len(gotOpts) == nopts, "C12: unary interceptor changed the call options")
	for i := 0; i < 2; i++ {
		if i < nopts && i < len(gotOpts) {
			verifAssert(gotOpts[i] == opts[i], "C12: unary interceptor changed a call option")
		}
	}
	g, ok := gotCtx.Value(gcpKey).(*gcpContext)
	verifAssert(ok && g != nil && g.reqMsg == interface{}(req) && g.replyMsg == interface{}(reply), "C12: picker cannot see the request and reply objects")
	verifAssert(gotCtx.Value(vUserKey{}) == interface{}(parent.userVal), "C12: caller's context value lost")
	meName, meOK := FromMEContext(gotCtx)
	verifAssert(meOK == hasME && (!hasME || meName == "me-x"), "C12: the MultiEndpoint name in the caller's context is not preserved by the interceptor")
	dl, has := gotCtx.Deadline()
	verifAssert(has == parent.hasDl && (!has || dl == parent.dl), "C12: caller's deadline lost")
	verifObserve("calls", uint64(calls))
}

// ---- stream interceptor ----

type vStream struct {
	sent, recvd int
	closed      bool
	lastSent    interface{}
	lastRecv    interface{}
	log         [8]int // 1 send, 2 recv, 3 closeSend, 4 header, 5 trailer, 6 context
	n           int
	sendErr     error
}

func (s *vStream) note(k int) {
	if s.n < 8 {
		s.log[s.n] = k
	}
	s.n++
}
func (s *vStream) Header() (metadata.MD, error) { s.note(4); return nil, nil }
func (s *vStream) Trailer() metadata.MD         { s.note(5); return nil }
func (s *vStream) CloseSend() error             { s.note(3); s.closed = true; return nil }
func (s *vStream) Context() context.Context     { s.note(6); return &verifCtx{} }
func (s *vStream) SendMsg(m interface{}) error {
	s.note(1)
	s.sent++
	s.lastSent = m
	if vBlockArmed {
		// this send completes only once the receiver has called RecvMsg on the underlying stream
		// (flow control: the peer talks first).  Symbolically: the receiver must already have been
		// told that the stream exists; natively: wait for the underlying RecvMsg.
		verifNeedsWaiter(vBlockCond, vBlockSince)
		if vBlockRecvCalled != nil {
			<-vBlockRecvCalled
		}
	}
	if vConcArmed == 2 {
		// the receiver goroutine runs while this send is inside the underlying stream
		vConcArmed = 0
		vConcErr = vConcCS.RecvMsg(vConcMsg)
		vConcRan = true
	}
	return s.sendErr
}
func (s *vStream) RecvMsg(m interface{}) error {
	s.note(2)
	s.recvd++
	s.lastRecv = m
	if vBlockArmed && vBlockRecvCalled != nil {
		close(vBlockRecvCalled)
	}
	if vConcArmed == 1 {
		// the sender goroutine runs while this receive is blocked inside the underlying stream
		vConcArmed = 0
		vConcErr = vConcCS.SendMsg(vConcMsg)
		vConcRan = true
	}
	return nil
}

// sender and receiver goroutine of one stream (the concurrency gRPC allows on a ClientStream)
var (
	vConcArmed int
	vConcCS    grpc.ClientStream
	vConcMsg   *verifMsg
	vConcErr   error
	vConcRan   bool
)

var (
	vStreamerCalls int
	vStreamerFails bool // every attempt fails
	vLastFailed    bool // the most recent attempt failed
	vCreated       int  // successful creations
	vUnder         *vStream
	vJunk          *vStream // stream returned together with an error by a failed creation attempt
	vFirstReq      interface{}
	vFirstHasGcp   bool
	vStreamerCtx   context.Context
	vGotDesc       *grpc.StreamDesc
	vGotCC         *grpc.ClientConn
	vGotMethod     string
	vGotNOpts      int
)

func vStreamer(ctx context.Context, desc *grpc.StreamDesc, cc *grpc.ClientConn, method string, opts ...grpc.CallOption) (grpc.ClientStream, error) {
	vStreamerCalls++
	vStreamerCtx, vGotDesc, vGotCC, vGotMethod, vGotNOpts = ctx, desc, cc, method, len(opts)
	if g, ok := ctx.Value(gcpKey).(*gcpContext); ok {
		vFirstHasGcp = true
		vFirstReq = g.reqMsg
	}
	// every creation attempt succeeds or fails on its own
	vLastFailed = vStreamerFails || verifBool("creationFails@")
	if vLastFailed {
		if verifBool("failedWithStream@") {
			// a failing streamer (e.g. a chained interceptor) may hand back a stream together with the error:
			// it is not "the underlying stream" - nothing may be sent on it, a later attempt creates a new one
			vJunk = &vStream{}
			return vJunk, verifErr{}
		}
		return nil, verifErr{}
	}
	vUnder = &vStream{}
	vCreated++
	return vUnder, nil
}

func vReset() {
	vStreamerCalls, vUnder, vFirstReq, vFirstHasGcp, vStreamerCtx = 0, nil, nil, false, nil
	vJunk = nil
	vLastFailed, vCreated, vStreamerFails = false, 0, false
}

// Sequential part: any sequence of up to 4 wrapper calls from one goroutine.
func VerifH_stream() {
	vReset()
	parent := vMkParent()
	desc := &grpc.StreamDesc{}
	cc := &grpc.ClientConn{}
	method := verifStr("method")
	nopts := verifInt("nopts")
	verifAssume(nopts >= 0 && nopts <= 2)
	opts := []grpc.CallOption{grpc.EmptyCallOption{}, grpc.EmptyCallOption{}}[:nopts]
	cs, err := GCPStreamClientInterceptor(parent, desc, cc, method, vStreamer, opts...)
	verifAssert(err == nil && cs != nil, "C12: stream interceptor failed")
	verifAssert(vStreamerCalls == 0, "C12: underlying stream created before the first SendMsg")
	msgs := [4]*verifMsg{{}, {}, {}, {}}
	created := false   // creation succeeded
	attempted := false // some SendMsg ran
	sends, recvs := 0, 0
	var first *verifMsg
	steps := verifCase("steps")
	for step := 0; step < 4; step++ {
		if step >= steps {
			break
		}
		k := verifInt("call" + verifD(step))
		verifAssume(k >= 0 && k <= 5)
		verifKnown("F-streamnil", !created && k >= 1 && k <= 4)
		switch k {
		case 0:
			calls0 := vStreamerCalls
			serr := cs.SendMsg(msgs[step])
			if !created {
				verifAssert(vStreamerCalls == calls0+1, "C12: SendMsg without an underlying stream did not try to create it")
				verifAssert(vFirstHasGcp && vFirstReq == interface{}(msgs[step]), "C12: message that creates the stream is not visible to the picker")
				if !attempted {
					first = msgs[step]
				}
				verifAssert((serr != nil) == vLastFailed, "C12: SendMsg result does not reflect the outcome of stream creation")
				created = !vLastFailed
			} else {
				verifAssert(vStreamerCalls == calls0, "C12: a second underlying stream was created after a success")
				verifAssert(serr == nil, "C12: SendMsg result not delegated")
			}
			attempted = true
			if created {
				sends++
				verifAssert(vUnder.sent == sends && vUnder.lastSent == interface{}(msgs[step]), "C12: message did not reach the underlying stream unchanged and in order")
			}
		case 1:
			cs.Header()
		case 2:
			cs.Trailer()
		case 3:
			cs.CloseSend()
		case 4:
			cs.Context()
		case 5:
			verifAssume(attempted) // receiving before the first send blocks: see VerifH_streamwait
			rerr := cs.RecvMsg(msgs[step])
			if created {
				recvs++
				verifAssert(rerr == nil && vUnder.recvd == recvs && vUnder.lastRecv == interface{}(msgs[step]), "C12: RecvMsg not delegated to the underlying stream")
			} else {
				verifAssert(rerr != nil, "C12: RecvMsg after a failed creation does not return the creation error")
			}
		}
	}
	verifReach("end")
	if attempted {
		verifReach("stream creation attempted")
		verifAssert(first != nil, "C12: harness lost the first message")
		verifAssert(vGotDesc == desc && vGotCC == cc && vGotMethod == method && vGotNOpts == nopts, "C12: stream created with other parameters than the caller's")
		verifAssert(vStreamerCtx.Value(vUserKey{}) == interface{}(parent.userVal), "C12: caller's context value lost on the stream")
	}
	verifAssert(vCreated <= 1, "C12: more than one underlying stream was created")
	verifAssert(vJunk == nil || vJunk.n == 0, "C12: a call was delegated to the stream a failed creation attempt returned together with its error")
	verifObserve("creations", uint64(vStreamerCalls))
	verifObserve("sends", uint64(sends))
}

// Receiver / sender interleaving: RecvMsg is issued before the first SendMsg and blocks in
// cond.Wait; while it is blocked the sender goroutine runs the real SendMsg (or the context ends).
var (
	vWaitCS      grpc.ClientStream
	vWaitSender  bool
	vWaitMsg     *verifMsg
	vWaitBlocked int
	vWaitArmed   bool
)

func verifOnBlock() {
	if verifRRArmed {
		verifOnBlockRR()
		return
	}
	if !vWaitArmed {
		return
	}
	vWaitBlocked++
	if vWaitSender && vWaitBlocked == 1 {
		vWaitCS.SendMsg(vWaitMsg)
	}
}

func VerifH_streamwait() {
	vReset()
	parent := vMkParent()
	csi, _ := GCPStreamClientInterceptor(parent, &grpc.StreamDesc{}, &grpc.ClientConn{}, "/m", vStreamer)
	cs := csi.(*gcpClientStream)
	verifGuardedBy(&cs.ClientStream, &cs.Mutex, "gcpClientStream.ClientStream")
	verifGuardedBy(&cs.initStreamErr, &cs.Mutex, "gcpClientStream.initStreamErr")
	vWaitCS, vWaitMsg, vWaitBlocked = csi, &verifMsg{}, 0
	vWaitSender = verifBool("senderRuns") // otherwise only the call's context ends
	verifKnown("F-recvctx", !vWaitSender)
	rmsg := &verifMsg{}
	vWaitArmed = true
	rerr := csi.RecvMsg(rmsg)
	vWaitArmed = false
	verifReach("receiver returned")
	verifAssert(verifLocksFree(), "C12: RecvMsg left the stream mutex held")
	verifAssert(vWaitBlocked >= 1, "C12: RecvMsg before the first SendMsg did not wait")
	if vLastFailed {
		verifAssert(rerr != nil, "C12: blocked RecvMsg does not return the creation error")
	} else {
		verifAssert(rerr == nil && vUnder != nil && vUnder.recvd == 1 && vUnder.lastRecv == interface{}(rmsg), "C12: blocked RecvMsg does not delegate once the stream exists")
		verifAssert(vUnder.sent == 1, "C12: sender's message lost")
	}
	verifAssert(vStreamerCalls == 1, "C12: stream not created exactly once")
	verifObserve("blocked", uint64(vWaitBlocked))
}

// Once the stream exists, a send issued while a receive is blocked inside the underlying stream
// (and vice versa) reaches the underlying stream: the wrapper holds nothing across the delegated
// call that the other direction needs.  The other goroutine's real call runs inline at the point
// where the first one is inside the underlying stream.
func VerifH_streamconc() {
	vReset()
	parent := vMkParent()
	csi, _ := GCPStreamClientInterceptor(parent, &grpc.StreamDesc{}, &grpc.ClientConn{}, "/m", vStreamer)
	first := &verifMsg{}
	vStreamerFails = false
	serr := csi.SendMsg(first)
	verifAssume(serr == nil && !vLastFailed && vUnder != nil) // the stream exists
	dir := verifCase("dir")
	verifAssume(dir == 1 || dir == 2)
	outer, inner := &verifMsg{}, &verifMsg{}
	vConcCS, vConcMsg, vConcRan, vConcErr = csi, inner, false, nil
	sent0, recvd0 := vUnder.sent, vUnder.recvd
	vConcArmed = dir
	var oerr error
	if dir == 1 {
		oerr = csi.RecvMsg(outer)
	} else {
		oerr = csi.SendMsg(outer)
	}
	vConcArmed = 0
	verifReach("both returned")
	verifAssert(verifLocksFree(), "C12: stream mutex left held")
	verifAssert(vConcRan && oerr == nil && vConcErr == nil, "C12: concurrent send/receive on an existing stream failed or did not run")
	verifAssert(vUnder.sent == sent0+1 && vUnder.recvd == recvd0+1, "C12: a send/receive issued while the other direction is inside the underlying stream did not reach the underlying stream")
	if dir == 1 {
		verifAssert(vUnder.lastSent == interface{}(inner) && vUnder.lastRecv == interface{}(outer), "C12: message changed on the way to the underlying stream")
	} else {
		verifAssert(vUnder.lastSent == interface{}(outer) && vUnder.lastRecv == interface{}(inner), "C12: message changed on the way to the underlying stream")
	}
	verifAssert(vStreamerCalls == 1, "C12: stream not created exactly once")
	verifObserve("sent", uint64(vUnder.sent))
}

// RecvMsg is parked before the first SendMsg, and the first send cannot complete on the underlying
// stream until the receiver reads from it: the receiver must be released as soon as the stream
// exists, not after the send has returned.  Symbolic run: the real SendMsg runs inline at the
// receiver's blocking point and the fake's SendMsg demands that the condition variable has been
// signalled by then.  Native run: two real goroutines; a deadlock shows as a hang.
var (
	vBlockArmed      bool
	vBlockCond       *sync.Cond
	vBlockSince      int
	vBlockRecvCalled chan struct{}
)

func VerifH_streamblock() {
	vReset()
	parent := vMkParent()
	csi, _ := GCPStreamClientInterceptor(parent, &grpc.StreamDesc{}, &grpc.ClientConn{}, "/m", vStreamer)
	cs := csi.(*gcpClientStream)
	vStreamerFails = false
	rmsg, smsg := &verifMsg{}, &verifMsg{}
	vBlockCond, vBlockSince = cs.cond, verifCondBroadcasts(cs.cond)
	if verifSymbolic() {
		vBlockRecvCalled = nil
		vWaitCS, vWaitMsg, vWaitBlocked, vWaitSender = csi, smsg, 0, true
		vBlockArmed, vWaitArmed = true, true
		rerr := csi.RecvMsg(rmsg)
		vBlockArmed, vWaitArmed = false, false
		verifAssume(!vLastFailed)
		verifReach("both returned")
		verifAssert(rerr == nil && vUnder != nil && vUnder.recvd == 1 && vUnder.sent == 1, "C12: receive-before-send with a send that needs the receiver did not complete")
	} else {
		vBlockRecvCalled = make(chan struct{})
		vBlockArmed = true
		recvDone := make(chan error, 1)
		go func() { recvDone <- csi.RecvMsg(rmsg) }()
		time.Sleep(50 * time.Millisecond) // let the receiver park in cond.Wait
		serr := csi.SendMsg(smsg)
		rerr := <-recvDone
		vBlockArmed = false
		verifAssert(serr == nil && rerr == nil && vUnder != nil && vUnder.recvd == 1 && vUnder.sent == 1, "C12: receive-before-send with a send that needs the receiver did not complete")
	}
	verifAssert(verifLocksFree(), "C12: stream mutex left held")
	verifObserve("sent", uint64(vUnder.sent))
}
