//go:build verif && go1.21 && !verifbig

package grpcgcp

// default (quick) universe
const (
	vM = 2 // pre-existing connection identities
	vF = 2 // fresh connections the factory can hand out during the call
	vR = 3 // slots (subConnRef objects)
	vK = 2 // affinity keys
)
