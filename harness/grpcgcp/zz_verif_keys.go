//go:build verif && go1.21

package grpcgcp

import (
	"reflect"

	pb "github.com/GoogleCloudPlatform/grpc-gcp-go/grpcgcp/grpc_gcp"
)

// ---- bounded type family for C11 (DESIGN.md section 6 C11) ----

// vTag: a string type with a name of its own (kind string, but not the type string)
type vTag string

type vLeaf struct {
	Name   string
	Tag    vTag
	Num    int64
	Flag   bool
	hidden string
}

type vMid struct {
	Key   string
	In    *vLeaf
	Items []*vLeaf
	Vals  []vLeaf
	Names []string
	Nums  []int64
	Any   interface{}
	M     map[string]string
}

type vTop struct {
	Id   string
	Mid  *vMid
	Mids []*vMid
	Leaf vLeaf
}

func vMkLeafV(tag string) vLeaf {
	return vLeaf{Name: verifStr(tag + "_name"), Tag: vTag(verifStr(tag + "_tag")), Num: int64(verifInt(tag + "_num")), Flag: verifBool(tag + "_flag"), hidden: "h"}
}

func vMkLeaf(tag string) *vLeaf {
	if verifBool(tag + "_nil") {
		return nil
	}
	l := vMkLeafV(tag)
	return &l
}

func vMkMid(tag string) *vMid {
	if verifBool(tag + "_nil") {
		return nil
	}
	ni, nv, nn, nu := verifInt(tag+"_nitems"), verifInt(tag+"_nvals"), verifInt(tag+"_nnames"), verifInt(tag+"_nnums")
	verifAssume(ni >= 0 && ni <= 2 && nv >= 0 && nv <= 2 && nn >= 0 && nn <= 2 && nu >= 0 && nu <= 1)
	m := &vMid{Key: verifStr(tag + "_key"), In: vMkLeaf(tag + "_in")}
	m.Items = []*vLeaf{vMkLeaf(tag + "_item0"), vMkLeaf(tag + "_item1")}[:ni]
	m.Vals = []vLeaf{vMkLeafV(tag + "_val0"), vMkLeafV(tag + "_val1")}[:nv]
	m.Names = []string{verifStr(tag + "_name0"), verifStr(tag + "_name1")}[:nn]
	// an unset repeated field is a nil slice, not an empty one
	if ni == 0 && verifBool(tag+"_itemsNil") {
		m.Items = nil
	}
	if nn == 0 && verifBool(tag+"_namesNil") {
		m.Names = nil
	}
	m.Nums = []int64{7}[:nu]
	switch verifInt(tag + "_anyKind") {
	case 1:
		m.Any = verifStr(tag + "_anystr")
	case 2:
		m.Any = vMkLeaf(tag + "_anyptr") // pointer inside an interface: only one level is unwrapped
	case 3:
		m.Any = vMkLeafV(tag + "_anyval")
	}
	m.M = map[string]string{}
	verifMapPut(m.M, "k", "v", verifBool(tag+"_hasMapEntry"))
	return m
}

// segment s names field F when strings.Title(s) == F
func vSeg(s, lower, title string) bool { return s == lower || s == title }

// ---- reference traversal written without reflection ----

func vRefStr(s string, p []string, i int) ([]string, bool) {
	if i == len(p) {
		return []string{s}, true
	}
	return nil, false // crossing a non-message value
}

func vRefLeafV(l vLeaf, p []string, i int) ([]string, bool) {
	if i == len(p) {
		return nil, false // a message is not a string
	}
	if vSeg(p[i], "name", "Name") {
		return vRefStr(l.Name, p, i+1)
	}
	if vSeg(p[i], "tag", "Tag") {
		return vRefStr(string(l.Tag), p, i+1)
	}
	return nil, false // num, flag, hidden, unknown names, empty segment
}

func vRefLeaf(l *vLeaf, p []string, i int) ([]string, bool) {
	if l == nil {
		return nil, false
	}
	return vRefLeafV(*l, p, i)
}

func vRefMid(m *vMid, p []string, i int) ([]string, bool) {
	if m == nil || i == len(p) {
		return nil, false
	}
	s := p[i]
	switch {
	case vSeg(s, "key", "Key"):
		return vRefStr(m.Key, p, i+1)
	case vSeg(s, "in", "In"):
		return vRefLeaf(m.In, p, i+1)
	case vSeg(s, "items", "Items"):
		out := []string{}
		for k := 0; k < 2; k++ {
			if k < len(m.Items) {
				ks, ok := vRefLeaf(m.Items[k], p, i+1)
				if !ok {
					return nil, false
				}
				out = append(out, ks...)
			}
		}
		return out, true
	case vSeg(s, "vals", "Vals"):
		out := []string{}
		for k := 0; k < 2; k++ {
			if k < len(m.Vals) {
				ks, ok := vRefLeafV(m.Vals[k], p, i+1)
				if !ok {
					return nil, false
				}
				out = append(out, ks...)
			}
		}
		return out, true
	case vSeg(s, "names", "Names"):
		out := []string{}
		for k := 0; k < 2; k++ {
			if k < len(m.Names) {
				ks, ok := vRefStr(m.Names[k], p, i+1)
				if !ok {
					return nil, false
				}
				out = append(out, ks...)
			}
		}
		return out, true
	case vSeg(s, "nums", "Nums"):
		if len(m.Nums) == 0 {
			return []string{}, true // an empty repeated field contributes no keys
		}
		return nil, false // non-string element
	case vSeg(s, "any", "Any"):
		switch a := m.Any.(type) {
		case string:
			return vRefStr(a, p, i+1)
		case vLeaf:
			return vRefLeafV(a, p, i+1)
		}
		return nil, false // nil interface, or a pointer inside the interface (not unwrapped twice)
	}
	return nil, false // m (a map), unknown name, empty segment
}

func vRefTop(t *vTop, p []string) ([]string, bool) {
	if t == nil || len(p) == 0 {
		return nil, false
	}
	s := p[0]
	switch {
	case vSeg(s, "id", "Id"):
		return vRefStr(t.Id, p, 1)
	case vSeg(s, "mid", "Mid"):
		return vRefMid(t.Mid, p, 1)
	case vSeg(s, "mids", "Mids"):
		out := []string{}
		for k := 0; k < 2; k++ {
			if k < len(t.Mids) {
				ks, ok := vRefMid(t.Mids[k], p, 1)
				if !ok {
					return nil, false
				}
				out = append(out, ks...)
			}
		}
		return out, true
	case vSeg(s, "leaf", "Leaf"):
		return vRefLeafV(t.Leaf, p, 1)
	}
	return nil, false
}

func vSegChoice(tag string, level int) string {
	switch level {
	case 0:
		return verifChoose(tag, "id", "Id", "mid", "mids", "Mids", "leaf", "nosuch", "", "ID")
	case 1:
		return verifChoose(tag, "key", "in", "In", "items", "vals", "names", "Names", "nums", "any", "m", "name", "nosuch", "")
	}
	return verifChoose(tag, "name", "Name", "tag", "num", "flag", "hidden", "Hidden", "nosuch", "")
}

func vCompare(got []string, err error, want []string, ok bool) {
	verifAssert((err == nil) == ok, "C11: key extraction succeeds/fails differently from following the dotted path")
	if err == nil && ok {
		verifReach("keys extracted")
		verifAssert(len(got) == len(want), "C11: number of extracted keys differs from the path's values")
		for i := 0; i < 4; i++ {
			if i < len(got) && i < len(want) {
				verifAssert(got[i] == want[i], "C11: extracted key differs or is out of field order")
			}
		}
	}
}

// keysFromMessage on the bounded type family with a symbolic path of 1..4 segments.
func VerifH_keys() {
	var msg interface{}
	var top *vTop
	switch verifCase("msgKind") {
	case 0: // *vTop, possibly a typed nil
		if !verifBool("top_nil") {
			nm := verifInt("nmids")
			verifAssume(nm >= 0 && nm <= 2)
			top = &vTop{Id: verifStr("id"), Mid: vMkMid("mid"), Leaf: vMkLeafV("leaf")}
			top.Mids = []*vMid{vMkMid("mids0"), vMkMid("mids1")}[:nm]
			if nm == 0 && verifBool("midsNil") {
				top.Mids = nil
			}
		}
		msg = top
	case 1: // untyped nil message
		msg = nil
	case 2: // a message that is not a struct
		msg = verifStr("plain")
	case 3:
		msg = []string{"a"}
	}
	n := verifCase("nseg")
	verifAssume(n >= 1 && n <= 4)
	path := []string{vSegChoice("seg0", 0), vSegChoice("seg1", 1), vSegChoice("seg2", 2), vSegChoice("seg3", 2)}[:n]
	verifReach("before")
	got, err := keysFromMessage(reflect.ValueOf(msg), path, 0)
	verifReach("after")
	var want []string
	ok := false
	if verifCase("msgKind") == 0 {
		want, ok = vRefTop(top, path)
	}
	vCompare(got, err, want, ok)
	if err != nil && verifCase("msgKind") == 0 {
		verifReach("error")
	}
	verifObserve("err", verifB2U(err != nil))
	verifObserve("n", uint64(len(got)))
}

// getAffinityKeysFromMessage itself (strings.Split + the traversal) on constant locators, including
// the harness message type whose summary the balancer harnesses use, and a generated protobuf message.
func VerifH_keysloc() {
	m := &verifMsg{Keys: []string{verifStr("k0"), verifStr("k1")}[:verifInt("nk")]}
	verifAssume(len(m.Keys) >= 0 && len(m.Keys) <= 2)
	var vm *verifMsg = m
	if verifBool("msg_nil") {
		vm = nil
	}
	loc := verifChoose("loc", "keys", "Keys", "keyz", "keys.x", "", ".", "keys.")
	var got []string
	var err error
	for i, l := range []string{"keys", "Keys", "keyz", "keys.x", "", ".", "keys."} {
		_ = i
		if loc == l {
			got, err = getAffinityKeysFromMessage(l, vm)
		}
	}
	want, werr := verifKeysSummary(loc, vm)
	if loc == "Keys" {
		want, werr = verifKeysSummary("keys", vm)
	}
	// the summary used by the balancer harnesses agrees with the real function on this type
	okWant := werr == nil
	if loc == "keys.x" || loc == "keys." {
		okWant = vm != nil && len(vm.Keys) == 0 // an empty repeated field contributes no keys whatever follows
		want = []string{}
	}
	vCompare(got, err, want, okWant)
	// a generated protobuf message: AffinityConfig{AffinityKey} through "affinityKey"
	ac := &pb.AffinityConfig{AffinityKey: verifStr("ak")}
	g2, e2 := getAffinityKeysFromMessage("affinityKey", ac)
	verifAssert(e2 == nil && len(g2) == 1 && g2[0] == ac.AffinityKey, "C11: string field of a generated message")
	_, e3 := getAffinityKeysFromMessage("command", ac)
	verifAssert(e3 != nil, "C11: non-string field of a generated message accepted")
	mc := &pb.MethodConfig{Name: []string{verifStr("n0")}, Affinity: ac}
	g4, e4 := getAffinityKeysFromMessage("affinity.affinityKey", mc)
	verifAssert(e4 == nil && len(g4) == 1 && g4[0] == ac.AffinityKey, "C11: nested generated message")
	g5, e5 := getAffinityKeysFromMessage("name", mc)
	verifAssert(e5 == nil && len(g5) == 1 && g5[0] == mc.Name[0], "C11: repeated string of a generated message")
	mc.Affinity = nil
	_, e6 := getAffinityKeysFromMessage("affinity.affinityKey", mc)
	verifAssert(e6 != nil, "C11: nil nested message accepted")
	verifObserve("err", verifB2U(err != nil))
}
