//go:build verif && go1.21

package grpcgcp

import (
	"time"

	"google.golang.org/grpc/balancer"
	"google.golang.org/grpc/connectivity"
	"google.golang.org/grpc/resolver"

	pb "github.com/GoogleCloudPlatform/grpc-gcp-go/grpcgcp/grpc_gcp"
)

// Step lemma for the aggregate counters (full 64-bit): from counters consistent with an arbitrary
// multiset of states, one transition keeps them consistent and the returned aggregate is the
// evaluation of the new counters.
func VerifH_cnt() {
	nr, nc, nt := verifU64("nr"), verifU64("nc"), verifU64("nt")
	cse := &connectivityStateEvaluator{numReady: nr, numConnecting: nc, numTransientFailure: nt}
	old := connectivity.State(verifInt("old"))
	nw := connectivity.State(verifInt("new"))
	verifAssume(old >= 0 && old <= 4 && nw >= 0 && nw <= 4)
	// the connection being moved is counted in its old state
	verifAssume(old != connectivity.Ready || nr >= 1)
	verifAssume(old != connectivity.Connecting || nc >= 1)
	verifAssume(old != connectivity.TransientFailure || nt >= 1)
	// counters do not exceed a sane pool size (no wrap on increment)
	verifAssume(nr < 1<<32 && nc < 1<<32 && nt < 1<<32)
	got := cse.recordTransition(old, nw)
	d := func(s, which connectivity.State) uint64 {
		if s == which {
			return 1
		}
		return 0
	}
	verifAssert(cse.numReady == nr-d(old, connectivity.Ready)+d(nw, connectivity.Ready), "C04: numReady after a transition")
	verifAssert(cse.numConnecting == nc-d(old, connectivity.Connecting)+d(nw, connectivity.Connecting), "C04: numConnecting after a transition")
	verifAssert(cse.numTransientFailure == nt-d(old, connectivity.TransientFailure)+d(nw, connectivity.TransientFailure), "C04: numTransientFailure after a transition")
	want := connectivity.TransientFailure
	if cse.numReady > 0 {
		want = connectivity.Ready
	} else if cse.numConnecting > 0 {
		want = connectivity.Connecting
	}
	verifAssert(got == want, "C04: aggregate returned by recordTransition")
	verifObserve("aggregate", uint64(got))
	verifObserve("numReady", cse.numReady)
	verifReach("end")
}

type verifSnap struct {
	home      [vK]*subConnRef
	chanOf    [vK]*subConnRef
	bound     [vK]bool
	boundSC   [vK]balancer.SubConn
	fb        [vK]balancer.SubConn
	hasFb     [vK]bool
	streams   [vR]int32
	subConn   [vR]balancer.SubConn
	refresh   [vR]bool
	refCnt    [vR]uint32
	deCalls   [vR]uint32
	lastResp  [vR]time.Time
	inPool    [vM + vF]bool
	slot      [vM + vF]*subConnRef
	state     [vM + vF]connectivity.State
	isRepl    [vM + vF]bool
	rslot     [vM + vF]*subConnRef
	connects  [vM + vF]int
	addrTag   [vM + vF]int
	removed   int
	created   int
	pubCount  int
	nr, nc    uint64
	nt        uint64
	gbstate   connectivity.State
	picker    balancer.Picker
	listLen   int
	list      [vR]*subConnRef
	rr        uint32
	poolSize  int
	nAddrs    int
	addrTagGb int
	pkLen     [2]int
	pkList    [2][vR + vF]*subConnRef
}

// chanOf is the channel a key is bound on: the slot that owns the connection affinityMap names
// (whether or not that connection is still a pool member); nil if unbound.
func (w *verifWorld) chanOf(k string) *subConnRef {
	sc, ok := w.gb.affinityMap[k]
	if !ok {
		return nil
	}
	var r *subConnRef
	for j := vR - 1; j >= 0; j-- {
		if w.refs[j].subConn == sc {
			r = w.refs[j]
		}
	}
	return r
}

func (w *verifWorld) sc(i int) *verifSC {
	if i < vM {
		return w.scs[i]
	}
	return w.cc.fresh[i-vM]
}

func (w *verifWorld) snap() *verifSnap {
	gb := w.gb
	s := &verifSnap{}
	for x := 0; x < vK; x++ {
		s.home[x] = w.home(w.keys[x])
		s.chanOf[x] = w.chanOf(w.keys[x])
		s.boundSC[x], s.bound[x] = gb.affinityMap[w.keys[x]]
		s.fb[x], s.hasFb[x] = gb.fallbackMap[w.keys[x]]
	}
	for j := 0; j < vR; j++ {
		r := w.refs[j]
		s.streams[j], s.subConn[j], s.refresh[j], s.refCnt[j], s.deCalls[j] = r.streamsCnt, r.subConn, r.refreshing, r.refreshCnt, r.deCalls
		s.lastResp[j] = r.lastResp
	}
	for i := 0; i < vM+vF; i++ {
		c := w.conn(i)
		s.slot[i], s.inPool[i] = gb.scRefs[c]
		s.state[i] = gb.scStates[c]
		s.rslot[i], s.isRepl[i] = gb.refreshingScRefs[c]
		s.connects[i] = w.sc(i).connects
		s.addrTag[i] = w.sc(i).addrTag
	}
	s.removed, s.created, s.pubCount = w.cc.removedCnt, w.cc.created, w.cc.pubCount
	s.nr, s.nc, s.nt = gb.csEvltr.numReady, gb.csEvltr.numConnecting, gb.csEvltr.numTransientFailure
	s.gbstate, s.picker = gb.state, gb.picker
	s.listLen = len(gb.scRefList)
	for j := 0; j < vR && j < len(gb.scRefList); j++ {
		s.list[j] = gb.scRefList[j]
	}
	s.rr = uint32(gb.rrRefId)
	s.poolSize = len(gb.scRefs)
	s.nAddrs = len(gb.addrs)
	s.addrTagGb = verifAddrTag(gb.addrs)
	for pi, p := range []*gcpPicker{w.pk, w.other} {
		s.pkLen[pi] = len(p.scRefs)
		for q := 0; q < vR+vF; q++ {
			if q < len(p.scRefs) {
				s.pkList[pi][q] = p.scRefs[q]
			}
		}
	}
	return s
}

// pickersUnchanged: a picker is an immutable snapshot - calls may still be in flight on a superseded
// one.  No operation changes the channel list of a picker object that already exists.
func verifPickersUnchanged(a, b *verifSnap) {
	same := true
	for pi := 0; pi < 2; pi++ {
		same = verifAnd(same, a.pkLen[pi] == b.pkLen[pi])
		for q := 0; q < vR+vF; q++ {
			same = verifAnd(same, a.pkList[pi][q] == b.pkList[pi][q])
		}
	}
	verifAssert(same, "C02,C04: the channel list of an existing picker object changed (pickers are immutable snapshots; calls still use superseded ones)")
}

// sameRouting asserts that nothing that decides where calls go has changed between two snapshots.
func verifSameRouting(a, b *verifSnap, label string) {
	same := true
	for x := 0; x < vK; x++ {
		same = verifAnd(same, a.bound[x] == b.bound[x] && (!a.bound[x] || a.boundSC[x] == b.boundSC[x]))
		same = verifAnd(same, a.hasFb[x] == b.hasFb[x] && (!a.hasFb[x] || a.fb[x] == b.fb[x]))
	}
	for j := 0; j < vR; j++ {
		same = verifAnd(same, a.streams[j] == b.streams[j] && a.subConn[j] == b.subConn[j] && a.refresh[j] == b.refresh[j])
		same = verifAnd(same, a.refCnt[j] == b.refCnt[j] && a.deCalls[j] == b.deCalls[j] && a.lastResp[j] == b.lastResp[j])
		same = verifAnd(same, a.list[j] == b.list[j])
	}
	for i := 0; i < vM+vF; i++ {
		same = verifAnd(same, a.inPool[i] == b.inPool[i] && (!a.inPool[i] || (a.slot[i] == b.slot[i] && a.state[i] == b.state[i])))
		same = verifAnd(same, a.isRepl[i] == b.isRepl[i] && (!a.isRepl[i] || a.rslot[i] == b.rslot[i]))
	}
	same = verifAnd(same, a.nr == b.nr && a.nc == b.nc && a.nt == b.nt && a.gbstate == b.gbstate && a.picker == b.picker)
	same = verifAnd(same, a.listLen == b.listLen && a.rr == b.rr && a.removed == b.removed && a.created == b.created && a.pubCount == b.pubCount)
	verifAssert(same, label)
}

// One arbitrary connection state report from an arbitrary Inv_gb state.
func VerifH_usc() {
	w := verifMkWorld()
	gb, cc := w.gb, w.cc
	ai := verifCase("arg_sc")
	verifAssume(ai >= 0 && ai <= vM+1)
	// the reported connection: one of the universe's, one the balancer never created, one removed earlier
	var sc balancer.SubConn
	switch {
	case ai < vM:
		for i := 0; i < vM; i++ {
			if ai == i {
				sc = w.scs[i]
			}
		}
	case ai == vM:
		sc = cc.fresh[0]
	default:
		sc = w.dead[0]
	}
	s := connectivity.State(verifInt("arg_state"))
	verifAssume(s >= 0 && s <= 4)
	pre := w.snap()
	oldS, known := gb.scStates[sc]
	rs, isRepl := gb.refreshingScRefs[sc]
	wasReady := verifAnd(known, oldS == connectivity.Ready)
	oldAggTF := gb.state == connectivity.TransientFailure
	swap := verifAnd(isRepl, s == connectivity.Ready)
	var oldSc balancer.SubConn
	var oldRefCnt uint32
	oldReady := false
	if swap {
		oldSc = rs.subConn
		oldRefCnt = rs.refreshCnt
		oldReady = gb.scStates[oldSc] == connectivity.Ready
	}
	verifReach("before")
	gb.UpdateSubConnState(sc, balancer.SubConnState{ConnectivityState: s})
	verifReach("after")
	post := w.snap()
	verifPickersUnchanged(pre, post)
	verifAssert(verifLocksFree(), "C06: UpdateSubConnState left a lock held")
	w.assertInv()

	// C04: a new state/picker pair is published on every READY-ness change of a pool connection
	// and on every change of the aggregate to or from TRANSIENT_FAILURE (must-publish direction)
	nowS, stillKnown := gb.scStates[sc]
	isReady := verifAnd(stillKnown, nowS == connectivity.Ready)
	poolReport := verifOr(verifAnd(known, !isRepl), swap)
	if swap {
		wasReady = oldReady
	}
	// the report itself is the oracle: what gRPC said about a pool connection is what the balancer knows
	if verifAnd(known, !isRepl) {
		if s == connectivity.Shutdown {
			verifAssert(!stillKnown, "C04: connection reported SHUTDOWN is still counted as a pool connection")
		} else {
			verifAssert(verifAnd(stillKnown, nowS == s), "C04,C09: the state reported for a pool connection was not recorded (published state, picker and round-robin waits go by the recorded state)")
		}
	}
	if swap {
		verifAssert(verifAnd(stillKnown, nowS == connectivity.Ready), "C04,C07: replacement that took over its channel is not recorded READY")
	}
	changed := verifAnd(poolReport, wasReady != isReady)
	tfCross := verifAnd(cc.published, (gb.state == connectivity.TransientFailure) != oldAggTF)
	verifAssert(verifImplies(changed, cc.pubCount > pre.pubCount), "C04: READY-ness change of a pool connection was not published")
	verifAssert(verifImplies(verifAnd(poolReport, tfCross), cc.pubCount > pre.pubCount), "C04: change of the aggregate to/from TRANSIENT_FAILURE was not published")
	// reports for replacement (not READY), removed and unknown connections change nothing at all
	if !poolReport {
		verifSameRouting(pre, post, "C04,C07: report for a connection that is not a pool member changed the balancer")
	}
	// C02(d) / C07(e): no state report touches a stream counter
	for j := 0; j < vR; j++ {
		verifAssert(post.streams[j] == pre.streams[j], "C02,C07: a state report changed a stream counter (active streams survive a refresh: the replacement takes them over)")
	}
	// C03(e): the balancer removes only the old connection of a completed refresh, exactly once; never creates here
	verifAssert(post.created == pre.created, "C03: a state report created a connection")
	if swap {
		verifAssert(post.removed == pre.removed+1 && cc.lastRemove == oldSc, "C03,C07: completed refresh did not remove exactly the old connection once")
		r := rs
		got, in := gb.scRefs[sc]
		verifAssert(in && got == r && r.subConn == sc, "C07: replacement did not take over the channel")
		verifAssert(!r.refreshing, "C07: channel still marked refreshing after the swap")
		verifAssert(r.refreshCnt == oldRefCnt+1 && r.deCalls == 0 && r.lastResp == verifClock, "C07: detector state after the swap")
		_, stillRepl := gb.refreshingScRefs[sc]
		verifAssert(!stillRepl, "C07: replacement still pending after the swap")
		_, oldIn := gb.scRefs[oldSc]
		verifAssert(!oldIn, "C07: old connection still a pool member after the swap")
	} else {
		verifAssert(post.removed == pre.removed, "C03: connection removed outside a completed refresh")
	}
	verifAssert(post.listLen == pre.listLen, "C07,C09: state report changed the channel list")
	for j := 0; j < vR; j++ {
		verifAssert(post.list[j] == pre.list[j], "C07,C09: state report changed a channel's position")
	}
	// C01(5): no state report - in particular no refresh swap - moves a key to another channel
	// (the channel of a key is the slot that owns the connection the key is bound to)
	for x := 0; x < vK; x++ {
		verifAssert(post.chanOf[x] == pre.chanOf[x], "C01: a state report moved a bound key to another channel")
		verifAssert(post.bound[x] == pre.bound[x], "C01: a state report bound or unbound a key")
	}
	// C08: a stand-in is kept for as long as it stays READY and the key's own channel stays not READY:
	// a state report drops a stand-in only when the stand-in itself left READY or the key's own channel
	// became READY; it never creates one, and changes one only by moving it to the replacement at a swap
	prevSc := sc
	if swap {
		prevSc = oldSc
	}
	for x := 0; x < vK; x++ {
		removed := verifAnd(pre.hasFb[x], !post.hasFb[x])
		changed := verifAnd(verifAnd(pre.hasFb[x], post.hasFb[x]), pre.fb[x] != post.fb[x])
		added := verifAnd(!pre.hasFb[x], post.hasFb[x])
		standInBroke := verifAnd(verifAnd(poolReport, !swap), verifAnd(pre.fb[x] == sc, verifAnd(wasReady, !isReady)))
		homeRecovered := verifAnd(verifAnd(poolReport, pre.bound[x]), verifAnd(pre.boundSC[x] == prevSc, verifAnd(!wasReady, isReady)))
		verifAssert(!added, "C08: a state report created a stand-in")
		verifAssert(verifImplies(removed, verifOr(standInBroke, homeRecovered)), "C08: a state report dropped the stand-in of a key although the stand-in is still READY and the key's own channel is still not READY")
		verifAssert(verifImplies(changed, verifAnd(swap, verifAnd(pre.fb[x] == oldSc, post.fb[x] == sc))), "C08: a state report replaced the stand-in of a key by another channel")
	}
	verifObserve("pubCount", uint64(cc.pubCount))
	verifObserve("state", uint64(gb.state))
	verifObserve("poolSize", uint64(len(gb.scRefs)))
}

// One resolver update (configuration already fixed) from an arbitrary Inv_gb state.
func VerifH_uccs() {
	w := verifMkWorld()
	gb, cc := w.gb, w.cc
	n := verifInt("naddrs")
	verifAssume(n >= 0 && n <= 2)
	addrs := []resolver.Address{{Addr: verifChoose("addr0", "x", "y", "z")}, {Addr: "w"}}[:n]
	pre := w.snap()
	emptyPool := len(gb.scRefs) == 0
	// the update may carry a (different) configuration: it is fixed by the first update (C17)
	var bc interface{}
	if verifBool("carriesConfig") {
		bc = &GCPBalancerConfig{ApiConfig: &pb.ApiConfig{ChannelPool: &pb.ChannelPoolConfig{MinSize: verifU32("cfg2min"), MaxSize: verifU32("cfg2max"), FallbackToReady: verifBool("cfg2fb")}}}
	}
	cfg0, cp0 := gb.cfg, gb.cfg.ChannelPool
	min0, max0, wm0, fb0 := cp0.MinSize, cp0.MaxSize, cp0.MaxConcurrentStreamsLowWatermark, cp0.FallbackToReady
	nMethods0 := len(gb.methodCfg)
	verifReach("before")
	ccs := balancer.ClientConnState{ResolverState: resolver.State{Addresses: addrs}}
	if bc != nil {
		ccs.BalancerConfig = bc.(*GCPBalancerConfig)
	}
	err := gb.UpdateClientConnState(ccs)
	verifAssert(gb.cfg == cfg0 && gb.cfg.ChannelPool == cp0 && cp0.MinSize == min0 && cp0.MaxSize == max0 && cp0.MaxConcurrentStreamsLowWatermark == wm0 && cp0.FallbackToReady == fb0 && len(gb.methodCfg) == nMethods0, "C17: configuration changed by a later resolver update")
	verifReach("after")
	post := w.snap()
	verifPickersUnchanged(pre, post)
	verifAssert(err == nil, "C20: resolver update with a fixed configuration returned an error")
	verifAssert(verifLocksFree(), "C06: UpdateClientConnState left a lock held")
	w.assertInv()
	for i := 0; i < vM+vF; i++ {
		if post.inPool[i] {
			verifAssert(post.addrTag[i] == verifAddrTag(addrs), "C20: a pool connection did not get the most recently resolved address list")
			verifAssert(post.connects[i] > pre.connects[i], "C20: a pool connection was not asked to (re)connect")
		}
		if post.isRepl[i] {
			verifAssert(post.addrTag[i] == verifAddrTag(addrs), "C20: the replacement connection of a refresh in flight missed the resolver update")
			verifAssert(post.connects[i] > pre.connects[i], "C20: the replacement connection of a refresh in flight was not asked to (re)connect")
		}
	}
	// C03(c): a resolver update creates a connection only to re-create an emptied pool, and removes none
	verifAssert(post.removed == pre.removed, "C03: resolver update removed a connection")
	verifAssert(verifImplies(!emptyPool, post.created == pre.created), "C03: resolver update created a connection although the pool is not empty")
	verifAssert(post.created <= pre.created+1, "C03: resolver update created more than one connection")
	for j := 0; j < vR; j++ {
		verifAssert(post.streams[j] == pre.streams[j], "C02: resolver update changed a stream counter")
	}
	for x := 0; x < vK; x++ {
		verifAssert(post.home[x] == pre.home[x] && post.bound[x] == pre.bound[x], "C01: resolver update moved a bound key")
	}
	verifObserve("created", uint64(cc.created))
	verifObserve("poolSize", uint64(len(gb.scRefs)))
}

// A resolver error changes neither the pool nor how calls are routed.
func VerifH_reserr() {
	w := verifMkWorld()
	pre := w.snap()
	w.gb.ResolverError(verifErr{})
	verifReach("after")
	post := w.snap()
	verifPickersUnchanged(pre, post)
	verifAssert(verifLocksFree(), "C06: ResolverError left a lock held")
	verifSameRouting(pre, post, "C20: a resolver error changed the pool or the routing")
	verifAssert(post.nAddrs == pre.nAddrs && post.addrTagGb == pre.addrTagGb, "C20: a resolver error changed the address list")
	for i := 0; i < vM+vF; i++ {
		verifAssert(post.connects[i] == pre.connects[i] && post.addrTag[i] == pre.addrTag[i], "C20: a resolver error touched a connection")
	}
	w.assertInv()
	verifObserve("pubCount", uint64(w.cc.pubCount))
}

// The picker published with TRANSIENT_FAILURE fails every call with the transient-failure error;
// the initial picker tells calls to wait.
func VerifH_errpick() {
	w := verifMkWorld()
	info := balancer.PickInfo{FullMethodName: verifChoose("method", "/plain", "/bind", "/bound", "/unbind", "/other"), Ctx: &verifCtx{hasGcp: verifBool("hasGcp")}}
	if ep, ok := w.gb.picker.(*errPicker); ok && w.cc.published {
		res, err := ep.Pick(info)
		verifReach("err picker picked")
		verifAssert(err == balancer.ErrTransientFailure, "C04: picker published with TRANSIENT_FAILURE does not fail calls with the transient-failure error")
		verifAssert(res.SubConn == nil && res.Done == nil, "C04: error picker placed a call")
	}
	_, err := newErrPicker(balancer.ErrTransientFailure).Pick(info)
	verifAssert(err == balancer.ErrTransientFailure, "C04: newErrPicker does not return its error")
	verifObserve("isTF", verifB2U(err == balancer.ErrTransientFailure))
}

// Two state reports in a row.  The one-step harnesses start from states built over the fields the
// harness knows; state that an operation leaves in places it does not know (a buffer kept for reuse, a
// cache) only exists after a first operation.  Obligation here: the picker published by the first
// report is an immutable snapshot - the second report does not change its channel list.
func VerifH_usc2() {
	w := verifMkWorld()
	gb := w.gb
	sc1 := verifChoose("usc1_sc", w.scList()...)
	s1 := connectivity.State(verifInt("usc1_state"))
	verifAssume(s1 >= 0 && s1 <= 4)
	gb.UpdateSubConnState(sc1, balancer.SubConnState{ConnectivityState: s1})
	p1, isGcp := gb.picker.(*gcpPicker)
	verifAssume(isGcp && p1 != nil && p1 != w.pk && p1 != w.other) // the first report published a new picker
	n1 := len(p1.scRefs)
	var l1 [vR + vF]*subConnRef
	for q := 0; q < vR+vF; q++ {
		if q < n1 {
			l1[q] = p1.scRefs[q]
		}
	}
	verifReach("first report published a picker")
	sc2 := verifChoose("usc2_sc", w.scList()...)
	s2 := connectivity.State(verifInt("usc2_state"))
	verifAssume(s2 >= 0 && s2 <= 4)
	gb.UpdateSubConnState(sc2, balancer.SubConnState{ConnectivityState: s2})
	verifReach("after")
	same := len(p1.scRefs) == n1
	for q := 0; q < vR+vF; q++ {
		if q < n1 && q < len(p1.scRefs) {
			same = verifAnd(same, p1.scRefs[q] == l1[q])
		}
	}
	verifAssert(same, "C02,C04: the channel list of a published picker changed when a later picker was generated (pickers are immutable snapshots; calls still use superseded ones)")
	verifAssert(verifLocksFree(), "C06: UpdateSubConnState left a lock held")
	w.assertInv()
	verifObserve("n1", uint64(n1))
}
