//go:build verif && go1.21

package grpcgcp

import (
	"context"
	"time"

	"google.golang.org/grpc/balancer"
	"google.golang.org/grpc/codes"
	"google.golang.org/grpc/connectivity"
	"google.golang.org/grpc/grpclog"
	"google.golang.org/grpc/resolver"
	"google.golang.org/grpc/status"
)

// ---- gRPC side of the balancer API (DESIGN.md section 4.1) ----

type verifSC struct {
	id       int
	connects int
	addrs    []resolver.Address
	addrTag  int // ghost: tag of the address list last given (C20)
}

func (s *verifSC) UpdateAddresses(a []resolver.Address) { s.addrs = a; s.addrTag = verifAddrTag(a) }
func (s *verifSC) Connect()                             { s.connects++ }
func (s *verifSC) GetOrBuildProducer(balancer.ProducerBuilder) (balancer.Producer, func()) {
	return nil, nil
}

// verifAddrTag identifies an address list by its length and first address (lists used by the
// harness differ in exactly these).
func verifAddrTag(a []resolver.Address) int {
	if len(a) == 0 {
		return 0
	}
	t := len(a) * 10
	if a[0].Addr == "y" {
		t++
	}
	if a[0].Addr == "z" {
		t += 2
	}
	return t
}

type verifCC struct {
	balancer.ClientConn
	fresh      []*verifSC
	nextFresh  int
	failNew    bool
	limited    bool // the factory works for okFor creations, then fails (e.g. the ClientConn starts closing)
	okFor      int
	created    int
	removedCnt int
	lastRemove balancer.SubConn
	published  bool
	pubCount   int
	lastState  connectivity.State
	lastPicker balancer.Picker
	resolveNow int
}

type verifErr struct{}

func (verifErr) Error() string { return "verif" }

// NewSubConn fails on an empty address list, as real gRPC 1.56 does (balancer_conn_wrappers.go),
// when the persistent flag failNew is set (failing connection factory), or from its (okFor+1)-th
// creation on when limited is set (a factory that starts failing).
func (c *verifCC) NewSubConn(a []resolver.Address, o balancer.NewSubConnOptions) (balancer.SubConn, error) {
	if len(a) == 0 || c.failNew || (c.limited && c.created >= c.okFor) || c.nextFresh >= len(c.fresh) {
		// (the last case is the bound of the universe: no more than len(fresh) creations per harness run)
		return nil, verifErr{}
	}
	s := c.fresh[c.nextFresh]
	c.nextFresh++
	c.created++
	s.addrs = a
	s.addrTag = verifAddrTag(a)
	return s, nil
}
func (c *verifCC) RemoveSubConn(sc balancer.SubConn) { c.removedCnt++; c.lastRemove = sc }
func (c *verifCC) UpdateState(s balancer.State) {
	c.published = true
	c.pubCount++
	c.lastState = s.ConnectivityState
	c.lastPicker = s.Picker
}
func (c *verifCC) ResolveNow(resolver.ResolveNowOptions) { c.resolveNow++ }
func (c *verifCC) Target() string                        { return "verif" }

type verifLogger struct {
	grpclog.LoggerV2
	verbose bool
}

func (l *verifLogger) V(int) bool                          { return l.verbose }
func (l *verifLogger) Info(args ...interface{})            {}
func (l *verifLogger) Infoln(args ...interface{})          {}
func (l *verifLogger) Infof(f string, a ...interface{})    {}
func (l *verifLogger) Warning(args ...interface{})         {}
func (l *verifLogger) Warningln(args ...interface{})       {}
func (l *verifLogger) Warningf(f string, a ...interface{}) {}
func (l *verifLogger) Error(args ...interface{})           {}
func (l *verifLogger) Errorln(args ...interface{})         {}
func (l *verifLogger) Errorf(f string, a ...interface{})   {}

// ---- context ----

type verifCtx struct {
	gcp    *gcpContext
	hasGcp bool
	dl     time.Time
	hasDl  bool
	done   chan struct{}
}

func (c *verifCtx) Value(k interface{}) interface{} {
	if k == interface{}(gcpKey) && c.hasGcp {
		return c.gcp
	}
	return nil
}
func (c *verifCtx) Deadline() (time.Time, bool) { return c.dl, c.hasDl }
func (c *verifCtx) Done() <-chan struct{}       { return c.done }
func (c *verifCtx) Err() error                  { return nil }

var _ context.Context = (*verifCtx)(nil)

// ---- messages: the real getAffinityKeysFromMessage returns on *verifMsg with locator "keys"
// exactly what verifKeysSummary returns (validated by the C11 harness on this type) ----

type verifMsg struct {
	Keys []string
}

func verifKeysSummary(locator string, msg interface{}) ([]string, error) {
	m, ok := msg.(*verifMsg)
	if !ok || m == nil || locator != "keys" {
		return nil, verifErr{}
	}
	out := []string{}
	for _, k := range m.Keys {
		out = append(out, k)
	}
	return out, nil
}

// ---- virtual clock ----

var verifClock time.Time

func verifNow() time.Time { return verifClock }

// ---- completion errors: kind 0 nil, 1 client-side deadline, 2 deadline with another text, 3 other ----

type verifErrKind struct{ kind int }

func (e *verifErrKind) Error() string {
	switch e.kind {
	case 1:
		return "rpc error: code = DeadlineExceeded desc = context deadline exceeded"
	case 2:
		return "rpc error: code = DeadlineExceeded desc = server side deadline"
	}
	return "rpc error: code = Unavailable desc = other"
}

// GRPCStatus makes the real status.Code agree with verifStatusCode in native replays.
func (e *verifErrKind) GRPCStatus() *status.Status {
	switch e.kind {
	case 1:
		return status.New(codes.DeadlineExceeded, "context deadline exceeded")
	case 2:
		return status.New(codes.DeadlineExceeded, "server side deadline")
	}
	return status.New(codes.Unavailable, "other")
}

func verifStatusCode(err error) codes.Code {
	if err == nil {
		return codes.OK
	}
	if e, ok := err.(*verifErrKind); ok {
		if e.kind == 1 || e.kind == 2 {
			return codes.DeadlineExceeded
		}
		return codes.Unavailable
	}
	return codes.Unknown
}

func verifMkErr(kind int) error {
	if kind == 0 {
		return nil
	}
	return &verifErrKind{kind: kind}
}
