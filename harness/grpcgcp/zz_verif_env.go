//go:build verif && go1.21

package grpcgcp

import (
	"google.golang.org/grpc/balancer"
	"google.golang.org/grpc/connectivity"
	"google.golang.org/grpc/grpclog"
	"google.golang.org/grpc/resolver"

	pb "github.com/GoogleCloudPlatform/grpc-gcp-go/grpcgcp/grpc_gcp"
)

type verifSC struct {
	id       int
	connects int
	addrs    []resolver.Address
}

func (s *verifSC) UpdateAddresses(a []resolver.Address) { s.addrs = a }
func (s *verifSC) Connect()                             { s.connects++ }
func (s *verifSC) GetOrBuildProducer(balancer.ProducerBuilder) (balancer.Producer, func()) {
	return nil, nil
}

type verifCC struct {
	balancer.ClientConn
	fresh      []*verifSC
	nextFresh  int
	failNew    bool
	created    int
	removedCnt int
	lastRemove balancer.SubConn
	published  bool
	pubCount   int
	lastState  connectivity.State
	lastPicker balancer.Picker
}

type verifErr struct{}

func (verifErr) Error() string { return "verif" }

func (c *verifCC) NewSubConn(a []resolver.Address, o balancer.NewSubConnOptions) (balancer.SubConn, error) {
	if len(a) == 0 || c.failNew {
		return nil, verifErr{}
	}
	s := c.fresh[c.nextFresh]
	c.nextFresh++
	c.created++
	s.addrs = a
	return s, nil
}
func (c *verifCC) RemoveSubConn(sc balancer.SubConn) { c.removedCnt++; c.lastRemove = sc }
func (c *verifCC) UpdateState(s balancer.State) {
	c.published = true
	c.pubCount++
	c.lastState = s.ConnectivityState
	c.lastPicker = s.Picker
}

type verifLogger struct {
	grpclog.LoggerV2
	verbose bool
}

func (l *verifLogger) V(int) bool                        { return l.verbose }
func (l *verifLogger) Info(args ...interface{})           {}
func (l *verifLogger) Infoln(args ...interface{})         {}
func (l *verifLogger) Infof(f string, a ...interface{})   {}
func (l *verifLogger) Warningf(f string, a ...interface{}) {}
func (l *verifLogger) Errorf(f string, a ...interface{})  {}

const (
	vM = 2 // pre-existing connection identities
	vR = 3 // slots
)

type verifWorld struct {
	gb    *gcpBalancer
	cc    *verifCC
	scs   [vM]*verifSC
	refs  [vR]*subConnRef
	gp    *gcpPicker
	errTF *errPicker
	errNo *errPicker
}

func verifEval(nr, nc uint64) connectivity.State {
	if nr > 0 {
		return connectivity.Ready
	}
	if nc > 0 {
		return connectivity.Connecting
	}
	return connectivity.TransientFailure
}

// inPickerList reports whether slot r is in the picker's list.
func (w *verifWorld) inPicker(p *gcpPicker, r *subConnRef) bool {
	in := false
	for i := 0; i < len(p.scRefs); i++ {
		in = verifOr(in, p.scRefs[i] == r)
	}
	return in
}

// verifInv returns the conjuncts of Inv_gb that this spike checks, evaluated without forking.
func (w *verifWorld) inv(check func(bool, string)) {
	gb, cc := w.gb, w.cc
	var nr, nc, nt uint64
	for i := 0; i < vM+2; i++ {
		var sc balancer.SubConn
		if i < vM {
			sc = w.scs[i]
		} else {
			sc = cc.fresh[i-vM]
		}
		r, inPool := gb.scRefs[sc]
		s, hasState := gb.scStates[sc]
		check(inPool == hasState, "I-pool: domains")
		check(verifImplies(inPool, r != nil), "I-pool: nil slot")
		check(verifImplies(inPool, verifOrElse(r, w.refs[0]).subConn == sc), "I-pool: slot identity")
		check(verifImplies(hasState, s != connectivity.Shutdown), "I-pool: shutdown stored")
		nr += verifB2U(verifAnd(hasState, s == connectivity.Ready))
		nc += verifB2U(verifAnd(hasState, s == connectivity.Connecting))
		nt += verifB2U(verifAnd(hasState, s == connectivity.TransientFailure))
		_, repl := gb.refreshingScRefs[sc]
		check(!verifAnd(repl, inPool), "I-refr: replacement in pool")
		for j := 0; j < vR; j++ {
			// a slot whose connection is a pool member is that member's slot; a replacement is nobody's connection yet
			check(verifImplies(verifAnd(inPool, w.refs[j].subConn == sc), r == w.refs[j]), "I-pool: slot back-pointer")
			check(verifImplies(repl, w.refs[j].subConn != sc), "I-refr: replacement already owned")
		}
	}
	check(gb.csEvltr.numReady == nr, "I-cnt: ready")
	check(gb.csEvltr.numConnecting == nc, "I-cnt: connecting")
	check(gb.csEvltr.numTransientFailure == nt, "I-cnt: tf")
	ev := verifEval(nr, nc)
	check(verifImplies(!cc.published, nr == 0), "I-agg: ready but unpublished")
	check(verifImplies(cc.published, gb.state == ev), "I-agg: state")
	check(verifImplies(cc.published, cc.lastState == gb.state), "I-agg: published state")
	check(verifImplies(cc.published, cc.lastPicker == gb.picker), "I-agg: published picker")
	ep, isErr := gb.picker.(*errPicker)
	gp, isGcp := gb.picker.(*gcpPicker)
	check(verifImplies(cc.published, verifAnd(gb.state == connectivity.TransientFailure, verifAnd(isErr, ep != nil)) == isErr), "I-pick: err picker iff TF")
	if isErr {
		check(verifImplies(cc.published, ep.err == balancer.ErrTransientFailure), "I-pick: TF error value")
	}
	if isGcp {
		for j := 0; j < vR; j++ {
			r := w.refs[j]
			ready := false
			for i := 0; i < vM+2; i++ {
				var sc balancer.SubConn
				if i < vM {
					sc = w.scs[i]
				} else {
					sc = cc.fresh[i-vM]
				}
				rr, ok := gb.scRefs[sc]
				ready = verifOr(ready, verifAnd(verifAnd(ok, rr == r), gb.scStates[sc] == connectivity.Ready))
			}
			check(verifImplies(cc.published, w.inPicker(gp, r) == ready), "I-pick: slot set")
		}
	}
}

func verifMkWorld() *verifWorld {
	w := &verifWorld{}
	cc := &verifCC{fresh: []*verifSC{{id: 100}, {id: 101}}, failNew: verifBool("failNew")}
	w.cc = cc
	gb := &gcpBalancer{
		cc:               cc,
		methodCfg:        make(map[string]*pb.AffinityConfig),
		affinityMap:      make(map[string]balancer.SubConn),
		fallbackMap:      make(map[string]balancer.SubConn),
		scRefs:           make(map[balancer.SubConn]*subConnRef),
		scStates:         make(map[balancer.SubConn]connectivity.State),
		refreshingScRefs: make(map[balancer.SubConn]*subConnRef),
		csEvltr:          &connectivityStateEvaluator{numReady: verifU64("nr"), numConnecting: verifU64("nc"), numTransientFailure: verifU64("nt")},
		log:              &verifLogger{verbose: verifBool("verbose")},
		state:            connectivity.State(verifInt("gbstate")),
	}
	w.gb = gb
	gb.cfg = &GCPBalancerConfig{ApiConfig: &pb.ApiConfig{ChannelPool: &pb.ChannelPoolConfig{
		MinSize: verifU32("minSize"), MaxSize: verifU32("maxSize"), MaxConcurrentStreamsLowWatermark: verifU32("wm"),
		FallbackToReady: verifBool("fallback"),
	}}}
	gb.addrs = []resolver.Address{{Addr: "a"}}
	for i := 0; i < vM; i++ {
		w.scs[i] = &verifSC{id: i}
	}
	for j := 0; j < vR; j++ {
		w.refs[j] = &subConnRef{stateSignal: make(chan struct{}), streamsCnt: verifI32("streams" + verifD(j)), refreshing: verifBool("refreshing" + verifD(j))}
		// slot's connection: one of the pre-existing ones or a retired one (nil stands for "left the universe")
		w.refs[j].subConn = verifChoose[balancer.SubConn]("refsc"+verifD(j), w.scs[0], w.scs[1], nil)
		gb.scRefList = append(gb.scRefList, w.refs[j])
	}
	for i := 0; i < vM; i++ {
		sc := balancer.SubConn(w.scs[i])
		inPool := verifBool("inPool" + verifD(i))
		slot := verifChoose("slot"+verifD(i), w.refs[0], w.refs[1], w.refs[2])
		verifMapPut(gb.scRefs, sc, slot, inPool)
		verifMapPut(gb.scStates, sc, connectivity.State(verifInt("st"+verifD(i))), inPool)
		st := gb.scStates[sc]
		verifAssume(st >= 0 && st <= 3)
		// replacement entries: a connection not in the pool may be the replacement of some refreshing slot
		isRepl := verifBool("isRepl" + verifD(i))
		rslot := verifChoose("rslot"+verifD(i), w.refs[0], w.refs[1], w.refs[2])
		verifAssume(verifImplies(isRepl, verifAnd(!inPool, rslot.refreshing)))
		verifMapPut(gb.refreshingScRefs, sc, rslot, isRepl)
	}
	// injectivity of scRefs and of refreshingScRefs
	r0, ok0 := gb.scRefs[balancer.SubConn(w.scs[0])]
	r1, ok1 := gb.scRefs[balancer.SubConn(w.scs[1])]
	verifAssume(verifImplies(verifAnd(ok0, ok1), r0 != r1))
	q0, k0 := gb.refreshingScRefs[balancer.SubConn(w.scs[0])]
	q1, k1 := gb.refreshingScRefs[balancer.SubConn(w.scs[1])]
	verifAssume(verifImplies(verifAnd(k0, k1), q0 != q1))
	// pickers
	w.errTF = &errPicker{err: balancer.ErrTransientFailure}
	w.errNo = &errPicker{err: balancer.ErrNoSubConnAvailable}
	list := []*subConnRef{
		verifChoose("pk0", w.refs[0], w.refs[1], w.refs[2]),
		verifChoose("pk1", w.refs[0], w.refs[1], w.refs[2]),
	}
	n := verifInt("pklen")
	verifAssume(n >= 0 && n <= 2)
	verifAssume(list[0] != list[1])
	w.gp = &gcpPicker{gb: gb, scRefs: list[:n], log: gb.log}
	gb.picker = verifChoose[balancer.Picker]("picker", w.gp, w.errTF, w.errNo)
	cc.published = verifBool("published")
	verifAssume(verifImplies(!cc.published, gb.picker == balancer.Picker(w.errNo)))
	cc.lastState = connectivity.State(verifInt("lastState"))
	cc.lastPicker = verifChoose[balancer.Picker]("lastPicker", w.gp, w.errTF, w.errNo)
	w.inv(func(c bool, _ string) { verifAssume(c) })
	return w
}
