//go:build verif && go1.21

package grpcgcp

import (
	"google.golang.org/grpc/balancer"
	"google.golang.org/grpc/connectivity"

	pb "github.com/GoogleCloudPlatform/grpc-gcp-go/grpcgcp/grpc_gcp"
)

// verifMkMsg builds a request/response message: nil, or 0..2 keys drawn from the two universe
// keys and one key that is in no table.
func (w *verifWorld) mkMsg(tag string) *verifMsg {
	n := verifInt(tag + "_n")
	verifAssume(n >= 0 && n <= 2)
	other := verifStr("keyOther")
	verifAssume(other != "")
	ks := []string{other}
	for x := 0; x < vK; x++ {
		verifAssume(other != w.keys[x])
		ks = append(ks, w.keys[x])
	}
	all := []string{verifChoose(tag+"_k0", ks...), verifChoose(tag+"_k1", ks...)}
	m := &verifMsg{Keys: all[:n]}
	if verifBool(tag + "_nil") {
		m = nil
	}
	return m
}

type verifCall struct {
	p         *gcpPicker
	useStale  bool
	method    string
	cmd       pb.AffinityConfig_Command
	hasCfg    bool
	req       *verifMsg
	reply     *verifMsg
	ctx       *verifCtx
	keyed     bool   // the pick looks the first request key up in the affinity table
	key       string // that key
	unbinds   bool   // a successful completion of this call unbinds unbindKey
	unbindKey string
}

// mkCall chooses the picker (current or stale), method, messages and context of one call.
func (w *verifWorld) mkCall() *verifCall {
	c := &verifCall{}
	c.p = w.pk
	c.useStale = verifCase("stale") != 0
	verifAssume((w.gb.picker != balancer.Picker(w.pk)) == c.useStale)
	mi := verifCase("method")
	verifAssume(mi >= 0 && mi < vMethods)
	c.method = []string{"/plain", "/bind", "/bound", "/unbind"}[mi]
	switch mi {
	case 1:
		c.cmd, c.hasCfg = pb.AffinityConfig_BIND, true
	case 2:
		c.cmd, c.hasCfg = pb.AffinityConfig_BOUND, true
	case 3:
		c.cmd, c.hasCfg = pb.AffinityConfig_UNBIND, true
	}
	c.req, c.reply = w.mkMsg("req"), w.mkMsg("reply")
	c.ctx = &verifCtx{gcp: &gcpContext{reqMsg: c.req, replyMsg: c.reply}, hasGcp: verifBool("hasGcpCtx")}
	if c.hasCfg && c.cmd != pb.AffinityConfig_BIND && c.ctx.hasGcp && c.req != nil && len(c.req.Keys) > 0 {
		// the empty string is "no affinity key" (what an unset proto3 string field reads as): such a
		// call is routed like an unkeyed one
		c.keyed, c.key = c.req.Keys[0] != "", c.req.Keys[0]
	}
	if c.hasCfg && c.cmd == pb.AffinityConfig_UNBIND && c.ctx.hasGcp && c.req != nil {
		// the completion of an UNBIND call removes the binding of the request's first key - of the
		// empty key when the request carries none
		c.unbinds = true
		if len(c.req.Keys) > 0 {
			c.unbindKey = c.req.Keys[0]
		}
	}
	return c
}

func (w *verifWorld) preStreams(pre *verifSnap, r *subConnRef) int32 {
	var v int32
	for j := 0; j < vR; j++ {
		if w.refs[j] == r {
			v = pre.streams[j]
		}
	}
	return v
}

// pickKnown registers the predicates of known findings a Pick can run into (none at present).
func (w *verifWorld) pickKnown(c *verifCall) {}

// placedOn returns the universe slot whose counter went up by one between the snapshots (nil if none).
func (w *verifWorld) placedOn(pre, post *verifSnap) (*subConnRef, int32) {
	var on *subConnRef
	var delta int32
	for j := 0; j < vR; j++ {
		d := post.streams[j] - pre.streams[j]
		delta += d
		if d == 1 {
			on = w.refs[j]
		}
	}
	return on, delta
}

// One Pick on the current or a stale gcpPicker from an arbitrary Inv_gb state (every strategy
// except round-robin BIND, which has its own harness).
func VerifH_pick() {
	w := verifMkWorld()
	gb, cc := w.gb, w.cc
	cp := gb.cfg.ChannelPool
	c := w.mkCall()
	p := c.p
	pre := w.snap()

	// facts about the pre-state used by the obligations
	var home *subConnRef
	homeReady, bound, hadFb := false, false, false
	var fbSC balancer.SubConn
	if c.keyed {
		home = w.home(c.key)
		homeReady = w.ready(home)
		_, bound = gb.affinityMap[c.key]
		fbSC, hadFb = gb.fallbackMap[c.key]
	}
	// least-loaded facts over the picker used
	nP := len(p.scRefs)
	minStreams := int32(1 << 30)
	for i := 0; i < nP; i++ {
		if p.scRefs[i].streamsCnt < minStreams {
			minStreams = p.scRefs[i].streamsCnt
		}
	}
	anyIdleOrConnecting := false
	for i := 0; i < vM+vF; i++ {
		if pre.inPool[i] && (pre.state[i] == connectivity.Idle || pre.state[i] == connectivity.Connecting) {
			anyIdleOrConnecting = true
		}
	}
	fallback := cp.FallbackToReady
	// the request message cannot be read (nil message): the pick fails with an error;
	// a request that carries no key is routed like an unkeyed call
	errPath := c.hasCfg && c.cmd != pb.AffinityConfig_BIND && c.ctx.hasGcp && c.req == nil
	unkeyedPath := nP > 0 && !errPath && !(c.keyed && bound) // the pick takes the least-loaded path

	w.pickKnown(c)

	verifReach("before")
	res, err := p.Pick(balancer.PickInfo{FullMethodName: c.method, Ctx: c.ctx})
	verifReach("after pick")
	post := w.snap()
	verifPickersUnchanged(pre, post)
	verifAssert(verifLocksFree(), "C06: Pick left a lock held")
	on, delta := w.placedOn(pre, post)

	// C02(b): exact stream accounting
	verifAssert(verifImplies(err != nil, delta == 0 && on == nil), "C02: failed pick changed a stream counter")
	verifAssert(verifImplies(err == nil, delta == 1 && on != nil), "C02: successful pick did not add exactly one stream to one channel")
	if err == nil && on != nil {
		verifAssert(res.SubConn != nil && res.SubConn == on.subConn, "C02: call placed on a connection other than the one of the channel that was charged")
		verifAssert(res.Done != nil, "C02: placed call has no completion callback")
	}
	verifAssert(err != balancer.ErrTransientFailure, "C04: a picker published with a state other than TRANSIENT_FAILURE failed a call with the transient-failure error")

	// C02(a): unkeyed / unknown-key calls go to a least-loaded channel of the picker used
	if unkeyedPath && err == nil && on != nil {
		verifAssert(verifInPicker(p, on), "C02: unkeyed call placed on a channel that is not in the picker used")
		verifAssert(w.preStreams(pre, on) == minStreams, "C02: unkeyed call placed on a channel that is not least loaded")
	}

	// C03(b): growth only when saturated, below maxSize, nothing idle/connecting; the call is told to wait
	grew := post.created == pre.created+1
	verifAssert(post.created == pre.created || grew, "C03: one pick created more than one connection")
	verifAssert(post.removed == pre.removed, "C03: a pick removed a connection")
	saturated := nP > 0 && minStreams >= int32(cp.MaxConcurrentStreamsLowWatermark) && pre.poolSize < int(cp.MaxSize)
	mayGrow := saturated && !anyIdleOrConnecting
	if unkeyedPath {
		verifAssert(verifImplies(grew, mayGrow), "C03: pool grew although it is not saturated below maxSize with no channel idle or connecting")
		verifAssert(verifImplies(mayGrow && !cc.failNew && pre.nAddrs > 0, grew), "C03: saturated pool below maxSize did not grow")
		verifAssert(verifImplies(saturated, err == balancer.ErrNoSubConnAvailable), "C03: call that found the pool saturated below maxSize was not told to wait")
		verifAssert(verifImplies(!saturated, err == nil), "C03: call not placed although a channel has capacity or the pool is at maxSize")
	} else {
		verifAssert(!grew, "C03: a call that does not take the least-loaded path grew the pool")
	}
	if errPath && nP > 0 {
		verifReach("unreadable request")
		verifAssert(err != nil && err != balancer.ErrNoSubConnAvailable, "C05: unreadable request message did not yield an error")
	}
	if grew {
		verifReach("pool grew")
		// the new connection is a pool member in state Idle and was asked to connect
		nsc := cc.fresh[cc.nextFresh-1]
		_, in := gb.scRefs[balancer.SubConn(nsc)]
		verifAssert(in && nsc.connects == 1, "C03: connection created by growth is not a connecting pool member")
	}

	// C01: a bound key travels on its channel
	if c.keyed && bound {
		if homeReady {
			verifReach("bound key, home READY")
			verifAssert(verifImplies(err == nil, res.SubConn == home.subConn), "C01,C08: call for a bound key placed on another channel while its own channel is READY (with fallback: every call goes back home once the home channel is READY again)")
			verifAssert(verifImplies(!c.useStale, err == nil), "C01,C08: the current picker did not place a call for a bound key on its READY channel")
		} else if !fallback {
			verifReach("bound key, home not READY, no fallback")
			verifAssert(err == balancer.ErrNoSubConnAvailable, "C01: call for a bound key whose channel is not READY was not told to wait (fallback disabled)")
			verifSameRouting(pre, post, "C01: refused call for a bound key changed the balancer")
		} else {
			// C08: fallback to a READY stand-in
			if !c.useStale && nP > 0 {
				verifAssert(err == nil, "C08: no stand-in chosen although a READY channel exists")
			}
			if err == nil && on != nil {
				verifReach("placed on a stand-in")
				verifAssert(w.ready(on), "C08: stand-in channel is not READY")
				verifAssert(verifImplies(hadFb, res.SubConn == fbSC), "C08: existing stand-in not reused")
				nfb, has := gb.fallbackMap[c.key]
				verifAssert(has && nfb == res.SubConn, "C08: stand-in not remembered for the key")
			}
		}
	}
	// C01/C08: a pick never changes which channel a key is bound to
	for x := 0; x < vK; x++ {
		verifAssert(post.bound[x] == pre.bound[x] && (!pre.bound[x] || post.boundSC[x] == pre.boundSC[x]), "C01,C08: a pick changed the binding of a key")
		changedFb := post.hasFb[x] != pre.hasFb[x] || (pre.hasFb[x] && post.fb[x] != pre.fb[x])
		verifAssert(verifImplies(changedFb, c.keyed && c.key == w.keys[x] && bound && !homeReady && fallback), "C08: a pick changed the stand-in of a key it was not called for")
	}
	verifAssert(post.rr == pre.rr, "C09: a call that is not a round-robin BIND moved the round-robin cursor")
	w.assertInv()
	verifObserve("err", verifB2U(err != nil))
	verifObserve("created", uint64(cc.created))
	verifObserve("slot", uint64(w.slotIdx(on)))
}
