//go:build verif && go1.21

package grpcgcp

import (
	"google.golang.org/grpc/balancer"
	"google.golang.org/grpc/resolver"

	pb "github.com/GoogleCloudPlatform/grpc-gcp-go/grpcgcp/grpc_gcp"
)

type verifCfgShape struct {
	hasApi, hasPool bool
	min, max, wm    uint32
	fallback        bool
	calls, ms       uint32
	strategy        pb.ChannelPoolConfig_BindPickStrategy
	idle            uint64
	nMethods        int
	nNames          [2]int
	namesNil        [2]bool
	names           [2][2]string
	hasAff          [2]bool
	cmd             [2]pb.AffinityConfig_Command
	keyPath         [2]string
}

func verifMkCfgShape(tag string) *verifCfgShape {
	s := &verifCfgShape{}
	s.hasApi, s.hasPool = verifBool(tag+"hasApi"), verifBool(tag+"hasPool")
	s.min, s.max, s.wm = verifU32(tag+"minSize"), verifU32(tag+"maxSize"), verifU32(tag+"wm")
	s.fallback, s.calls, s.ms = verifBool(tag+"fallback"), verifU32(tag+"calls"), verifU32(tag+"ms")
	s.strategy = pb.ChannelPoolConfig_BindPickStrategy(verifI32(tag + "strategy"))
	s.idle = verifU64(tag + "idle")
	s.nMethods = verifInt(tag + "nMethods")
	verifAssume(s.nMethods >= 0 && s.nMethods <= 2)
	for i := 0; i < 2; i++ {
		d := verifD(i)
		s.nNames[i] = verifInt(tag + "nNames" + d)
		verifAssume(s.nNames[i] >= 0 && s.nNames[i] <= 2)
		s.namesNil[i] = verifBool(tag + "namesNil" + d)
		verifAssume(!s.namesNil[i] || s.nNames[i] == 0)
		for j := 0; j < 2; j++ {
			s.names[i][j] = verifStr(tag + "name" + d + verifD(j))
		}
		s.hasAff[i] = verifBool(tag + "hasAff" + d)
		s.cmd[i] = pb.AffinityConfig_Command(verifI32(tag + "cmd" + d))
		s.keyPath[i] = verifStr(tag + "keyPath" + d)
	}
	return s
}

// build makes a fresh configuration object graph of this shape.
func (s *verifCfgShape) build() *GCPBalancerConfig {
	cfg := &GCPBalancerConfig{}
	if !s.hasApi {
		return cfg
	}
	api := &pb.ApiConfig{}
	if s.hasPool {
		api.ChannelPool = &pb.ChannelPoolConfig{MinSize: s.min, MaxSize: s.max, MaxConcurrentStreamsLowWatermark: s.wm,
			FallbackToReady: s.fallback, UnresponsiveCalls: s.calls, UnresponsiveDetectionMs: s.ms, BindPickStrategy: s.strategy, IdleTimeout: s.idle}
	}
	all := []*pb.MethodConfig{{}, {}}
	for i := 0; i < 2; i++ {
		if !s.namesNil[i] {
			all[i].Name = []string{s.names[i][0], s.names[i][1]}[:s.nNames[i]]
		}
		if s.hasAff[i] {
			all[i].Affinity = &pb.AffinityConfig{Command: s.cmd[i], AffinityKey: s.keyPath[i]}
		}
	}
	api.Method = all[:s.nMethods]
	cfg.ApiConfig = api
	return cfg
}

// same reports whether the graph cfg still has exactly this shape (the caller's object is untouched).
func (s *verifCfgShape) same(cfg *GCPBalancerConfig) bool {
	if !s.hasApi {
		return cfg.ApiConfig == nil
	}
	api := cfg.ApiConfig
	ok := api != nil
	if !ok {
		return false
	}
	if s.hasPool {
		cp := api.ChannelPool
		if cp == nil {
			return false
		}
		ok = ok && cp.MinSize == s.min && cp.MaxSize == s.max && cp.MaxConcurrentStreamsLowWatermark == s.wm && cp.FallbackToReady == s.fallback &&
			cp.UnresponsiveCalls == s.calls && cp.UnresponsiveDetectionMs == s.ms && cp.BindPickStrategy == s.strategy && cp.IdleTimeout == s.idle
	} else {
		ok = ok && api.ChannelPool == nil
	}
	ok = ok && len(api.Method) == s.nMethods
	for i := 0; i < 2; i++ {
		if i < len(api.Method) && i < s.nMethods {
			m := api.Method[i]
			if m == nil {
				return false
			}
			ok = ok && len(m.Name) == s.nNames[i] && (m.Name == nil) == s.namesNil[i]
			for j := 0; j < 2; j++ {
				if j < len(m.Name) && j < s.nNames[i] {
					ok = ok && m.Name[j] == s.names[i][j]
				}
			}
			if s.hasAff[i] {
				if m.Affinity == nil {
					return false
				}
				ok = ok && m.Affinity.Command == s.cmd[i] && m.Affinity.AffinityKey == s.keyPath[i]
			} else {
				ok = ok && m.Affinity == nil
			}
		}
	}
	return ok
}

// Base case: Build + first resolver update with a symbolic configuration, then a second update.
func VerifH_init() {
	cc := &verifCC{fresh: []*verifSC{{id: 100}, {id: 101}, {id: 102}, {id: 103}}, failNew: verifBool("failNew")}
	cc.limited, cc.okFor = verifBool("factoryDies"), verifInt("okFor")
	verifAssume(cc.okFor >= 0 && cc.okFor <= 3)
	gb := newBuilder().Build(cc, balancer.BuildOptions{}).(*gcpBalancer)
	gb.log = &verifLogger{verbose: verifBool("verbose")}
	verifAssert(gb.cfg == nil && len(gb.scRefs) == 0 && len(gb.scStates) == 0 && len(gb.scRefList) == 0 && len(gb.affinityMap) == 0, "C03: Build does not start from an empty balancer")
	ep, isErr := gb.picker.(*errPicker)
	verifAssert(isErr && ep.err == balancer.ErrNoSubConnAvailable, "C04: initial picker does not tell calls to wait")
	sh := verifMkCfgShape("")
	verifAssume(sh.min <= 3) // bound of this harness: at most 4 connections at start
	cfg := sh.build()
	var bcfg interface{} = cfg
	if verifBool("nilConfig") {
		bcfg = nil
	}
	n := verifInt("naddrs")
	verifAssume(n >= 0 && n <= 2)
	addrs := []resolver.Address{{Addr: verifChoose("addr0", "x", "y", "z")}, {Addr: "w"}}[:n]
	canCreate := n > 0 && !cc.failNew
	verifReach("before")
	var sc balancer.ClientConnState
	sc.ResolverState.Addresses = addrs
	if bcfg != nil {
		sc.BalancerConfig = cfg
	}
	err := gb.UpdateClientConnState(sc)
	verifReach("after")
	verifAssert(err == nil, "C17: first resolver update with a GCPBalancerConfig failed")
	verifAssert(verifLocksFree(), "C06: UpdateClientConnState left a lock held")

	supplied := bcfg != nil && sh.hasApi
	wantMin, wantMax, wantWm := uint32(1), uint32(4), uint32(100)
	if supplied && sh.hasPool {
		if sh.min != 0 {
			wantMin = sh.min
		}
		if sh.max != 0 {
			wantMax = sh.max
		}
		if sh.wm != 0 {
			wantWm = sh.wm
		}
	}
	// C03(a): exactly max(1,minSize) connections after the first non-empty resolver update
	if canCreate {
		verifReach("pool created")
		wantN := int(wantMin)
		if cc.limited && cc.okFor < wantN {
			wantN = cc.okFor // the factory stopped working while the pool was being filled
		}
		verifAssert(cc.created == wantN && len(gb.scRefs) == wantN && len(gb.scRefList) == wantN && len(gb.scStates) == wantN, "C03: initial pool size is not max(1,minSize) (or what the factory delivered before it started failing)")
		for i := 0; i < 4; i++ {
			if i < cc.created {
				verifAssert(cc.fresh[i].connects >= 1 && cc.fresh[i].addrTag == verifAddrTag(addrs), "C03,C20: initial connection not connecting to the resolved addresses")
			}
		}
	} else {
		verifAssert(cc.created == 0 && len(gb.scRefs) == 0, "C03: connections without addresses / with a failing factory")
	}
	verifAssert(cc.removedCnt == 0 && !cc.published, "C03,C04: first resolver update removed a connection or published a state")

	// C17: defaults and fidelity
	verifAssert(gb.cfg != nil && gb.cfg.ApiConfig != nil && gb.cfg.ApiConfig.ChannelPool != nil, "C17: no effective configuration")
	cp := gb.cfg.ApiConfig.ChannelPool
	verifAssert(cp.MinSize == wantMin && cp.MaxSize == wantMax && cp.MaxConcurrentStreamsLowWatermark == wantWm, "C17: effective minSize/maxSize/watermark are not the supplied values or the defaults 1/4/100")
	if supplied && sh.hasPool {
		verifAssert(cp.FallbackToReady == sh.fallback && cp.UnresponsiveCalls == sh.calls && cp.UnresponsiveDetectionMs == sh.ms && cp.BindPickStrategy == sh.strategy && cp.IdleTimeout == sh.idle, "C17: a channel-pool field differs from the supplied configuration")
	} else {
		verifAssert(!cp.FallbackToReady && cp.UnresponsiveCalls == 0 && cp.UnresponsiveDetectionMs == 0 && cp.BindPickStrategy == 0 && cp.IdleTimeout == 0, "C17: non-default field without a supplied value")
	}
	verifAssert(gb.unresponsiveDetection == (cp.UnresponsiveCalls > 0 && cp.UnresponsiveDetectionMs > 0), "C07,C17: detection flag does not follow the configuration")
	// method table: every name listed once, in an entry with an affinity section, maps to that entry
	probe := verifStr("probeName")
	got, has := gb.methodCfg[probe]
	cnt, with := 0, -1
	if supplied {
		for i := 0; i < 2; i++ {
			for j := 0; j < 2; j++ {
				if i < sh.nMethods && j < sh.nNames[i] && sh.names[i][j] == probe {
					cnt++
					with = i
				}
			}
		}
	}
	if cnt == 1 {
		verifReach("name listed once")
		if with == 0 {
			verifAssert(has == sh.hasAff[0], "C17: method listed once is mapped iff its entry has an affinity section")
			if has {
				verifAssert(got != nil && got.Command == sh.cmd[0] && got.AffinityKey == sh.keyPath[0], "C17: method mapped to another command or key path")
			}
		} else {
			verifAssert(has == sh.hasAff[1], "C17: method listed once is mapped iff its entry has an affinity section")
			if has {
				verifAssert(got != nil && got.Command == sh.cmd[1] && got.AffinityKey == sh.keyPath[1], "C17: method mapped to another command or key path")
			}
		}
	}
	if cnt == 0 {
		verifAssert(!has, "C17: a method that is not listed is mapped")
	}
	// immutability / no aliasing of the caller's object graph
	verifAssert(sh.same(cfg), "C17: the balancer mutated the caller's configuration object")
	if sh.hasApi {
		verifAssert(gb.cfg.ApiConfig != cfg.ApiConfig, "C17: effective configuration aliases the caller's ApiConfig")
		if sh.hasPool {
			verifAssert(gb.cfg.ApiConfig.ChannelPool != cfg.ApiConfig.ChannelPool, "C17: effective configuration aliases the caller's ChannelPoolConfig")
		}
		for i := 0; i < 2; i++ {
			if i < sh.nMethods && i < len(gb.cfg.ApiConfig.Method) {
				verifAssert(gb.cfg.ApiConfig.Method[i] != cfg.ApiConfig.Method[i], "C17: effective configuration aliases a caller's MethodConfig")
				if has && sh.hasAff[i] {
					verifAssert(got != cfg.ApiConfig.Method[i].Affinity, "C17: method table aliases a caller's AffinityConfig")
				}
			}
		}
	}

	// the configuration is fixed by the first resolver update
	sh2 := verifMkCfgShape("second_")
	cfg2 := sh2.build()
	cfgPtr, cpCopy := gb.cfg, *cp
	_ = cpCopy
	min0, max0, wm0, fb0, calls0, ms0, st0 := cp.MinSize, cp.MaxSize, cp.MaxConcurrentStreamsLowWatermark, cp.FallbackToReady, cp.UnresponsiveCalls, cp.UnresponsiveDetectionMs, cp.BindPickStrategy
	{
		// a later resolver update (also one that arrives while the pool is still empty, possibly with
		// addresses this time) must not touch the configuration
		n2 := verifInt("naddrs2")
		verifAssume(n2 >= 0 && n2 <= 2)
		addrs2 := []resolver.Address{{Addr: "x"}, {Addr: "w"}}[:n2]
		if canCreate {
			addrs2 = addrs
		}
		created1 := cc.created
		err2 := gb.UpdateClientConnState(balancer.ClientConnState{ResolverState: resolver.State{Addresses: addrs2}, BalancerConfig: cfg2})
		verifReach("second update")
		verifAssert(err2 == nil, "C17: second resolver update failed")
		verifAssert(gb.cfg == cfgPtr && gb.cfg.ApiConfig.ChannelPool == cp, "C17: configuration replaced by a later resolver update")
		verifAssert(cp.MinSize == min0 && cp.MaxSize == max0 && cp.MaxConcurrentStreamsLowWatermark == wm0 && cp.FallbackToReady == fb0 && cp.UnresponsiveCalls == calls0 && cp.UnresponsiveDetectionMs == ms0 && cp.BindPickStrategy == st0, "C17: configuration changed by a later resolver update")
		got2, has2 := gb.methodCfg[probe]
		verifAssert(has2 == has && got2 == got, "C17: method table changed by a later resolver update")
		verifAssert(sh2.same(cfg2), "C17: the balancer mutated the configuration object of a later update")
		if created1 > 0 {
			verifAssert(cc.created == created1, "C03: second resolver update created connections")
		} else {
			verifAssert(cc.created <= created1+1, "C03: re-creating an empty pool created more than one connection")
		}
	}
	verifObserve("created", uint64(cc.created))
	verifObserve("minSize", uint64(cp.MinSize))
	verifObserve("maxSize", uint64(cp.MaxSize))
	verifObserve("wm", uint64(cp.MaxConcurrentStreamsLowWatermark))
}
