//go:build verif && go1.21

package grpcgcp

import (
	"time"

	"google.golang.org/grpc/balancer"
	"google.golang.org/grpc/connectivity"
	"google.golang.org/grpc/resolver"

	pb "github.com/GoogleCloudPlatform/grpc-gcp-go/grpcgcp/grpc_gcp"
)

// The bounded universe of the balancer harnesses (DESIGN.md section 5.1) - vM pre-existing
// connection identities, vF fresh ones, vR slots, vK keys - is defined in zz_verif_univ_*.go:
// 2/2/3/2 by default, 3/2/4/3 with build tag verifbig (thorough tier).

func (w *verifWorld) scList(extra ...balancer.SubConn) []balancer.SubConn {
	l := []balancer.SubConn{}
	for i := 0; i < vM; i++ {
		l = append(l, w.scs[i])
	}
	return append(l, extra...)
}

func (w *verifWorld) deadList() []balancer.SubConn {
	l := []balancer.SubConn{}
	for j := 0; j < vR; j++ {
		l = append(l, w.dead[j])
	}
	return l
}

func (w *verifWorld) anyRef(name string) *subConnRef { return verifChoose(name, w.refs[:]...) }

type verifWorld struct {
	gb    *gcpBalancer
	cc    *verifCC
	scs   [vM]*verifSC
	dead  [vR]*verifSC // a connection that left the pool, still referenced by slot j
	refs  [vR]*subConnRef
	pk    *gcpPicker // the picker calls are issued on: the published one, or a stale one
	other *gcpPicker // another picker object, published when pk is stale
	errTF *errPicker
	errNo *errPicker
	keys  [vK]string
	nList int
}

// conn returns the i-th connection identity of the universe: existing ones first, then fresh ones.
func (w *verifWorld) conn(i int) balancer.SubConn {
	if i < vM {
		return w.scs[i]
	}
	return w.cc.fresh[i-vM]
}

func verifEval(nr, nc uint64) connectivity.State {
	if nr > 0 {
		return connectivity.Ready
	}
	if nc > 0 {
		return connectivity.Connecting
	}
	return connectivity.TransientFailure
}

func verifInPicker(p *gcpPicker, r *subConnRef) bool {
	in := false
	for i := 0; i < vR+vF; i++ {
		if i < len(p.scRefs) {
			in = verifOr(in, p.scRefs[i] == r)
		}
	}
	return in
}

// listed reports whether r is in the balancer's channel list.
func (w *verifWorld) listed(r *subConnRef) bool {
	in := false
	l := w.gb.scRefList
	for i := 0; i < vR+vF; i++ {
		if i < len(l) {
			in = verifOr(in, l[i] == r)
		}
	}
	return in
}

// slotIdx returns the position of r in the universe (vR if none).
func (w *verifWorld) slotIdx(r *subConnRef) int {
	idx := vR
	for j := vR - 1; j >= 0; j-- {
		if w.refs[j] == r {
			idx = j
		}
	}
	return idx
}

// home is the slot a key is bound on: the slot of the pool connection affinityMap names (nil if none).
func (w *verifWorld) home(k string) *subConnRef {
	sc, ok := w.gb.affinityMap[k]
	if !ok {
		return nil
	}
	r, ok := w.gb.scRefs[sc]
	if !ok {
		return nil
	}
	return r
}

func (w *verifWorld) ready(r *subConnRef) bool {
	if r == nil {
		return false
	}
	rr, ok := w.gb.scRefs[r.subConn]
	return verifAnd(verifAnd(ok, rr == r), w.gb.scStates[r.subConn] == connectivity.Ready)
}

// inv evaluates the conjuncts of Inv_gb; check is verifAssume (pre-state) or verifAssert (post-state).
// Labels carry the ids of the properties whose argument rests on the conjunct.
func (w *verifWorld) inv(check func(bool, string)) {
	gb, cc := w.gb, w.cc
	var nr, nc, nt uint64
	for i := 0; i < vM+vF; i++ {
		sc := w.conn(i)
		r, inPool := gb.scRefs[sc]
		s, hasState := gb.scStates[sc]
		check(inPool == hasState, "C03,C04,C05: I-pool scRefs and scStates have different domains")
		check(verifImplies(inPool, r != nil), "C03,C05: I-pool nil slot for a pool connection")
		check(verifImplies(inPool, verifOrElse(r, w.refs[0]).subConn == sc), "C03,C07: I-pool slot of a pool connection does not point back at it")
		check(verifImplies(inPool, w.listed(r)), "C03,C09: I-list slot of a pool connection is not in scRefList")
		check(verifImplies(hasState, s != connectivity.Shutdown), "C04: I-pool Shutdown stored as a state")
		nr += verifB2U(verifAnd(hasState, s == connectivity.Ready))
		nc += verifB2U(verifAnd(hasState, s == connectivity.Connecting))
		nt += verifB2U(verifAnd(hasState, s == connectivity.TransientFailure))
		rs, repl := gb.refreshingScRefs[sc]
		check(!verifAnd(repl, inPool), "C03,C04,C07,C09: I-refr replacement connection is a pool member (its later state reports would be ignored)")
		check(verifImplies(repl, rs != nil), "C07: I-refr nil slot for a replacement")
		check(verifImplies(repl, verifOrElse(rs, w.refs[0]).refreshing), "C07: I-refr slot of a pending replacement is not marked refreshing")
		check(verifImplies(repl, w.listed(rs)), "C07: I-list refreshing slot is not in scRefList")
		for j := 0; j < vR; j++ {
			check(verifImplies(verifAnd(inPool, w.refs[j].subConn == sc), r == w.refs[j]), "C03,C07: I-pool two slots claim one pool connection")
			check(verifImplies(repl, w.refs[j].subConn != sc), "C07: I-refr replacement already owned by a slot")
		}
		for i2 := i + 1; i2 < vM+vF; i2++ {
			sc2 := w.conn(i2)
			r2, in2 := gb.scRefs[sc2]
			check(verifImplies(verifAnd(inPool, in2), r != r2), "C03: I-pool two pool connections share a slot")
			q2, rp2 := gb.refreshingScRefs[sc2]
			check(verifImplies(verifAnd(repl, rp2), rs != q2), "C07: I-refr two replacements pending for one slot")
		}
		if i >= vM {
			// fresh identities not yet handed out are in no map
			check(verifImplies(i-vM >= cc.nextFresh, verifAnd(!inPool, !repl)), "C03: I-fresh unissued connection is known to the balancer")
		}
	}
	// the nil connection (what a failed NewSubConn returns) is a key of no map: every loop over these
	// maps calls methods on the keys
	// every entry of the channel list is a channel with a connection (dead ones keep their last one)
	for i := 0; i < vR+vF+1; i++ {
		if i < len(gb.scRefList) {
			e := gb.scRefList[i]
			check(e != nil && verifOrElse(e, w.refs[0]).subConn != nil, "C05,C09: I-list the channel list holds a channel without a connection")
		}
	}
	var nilSC balancer.SubConn
	_, nil1 := gb.scRefs[nilSC]
	_, nil2 := gb.scStates[nilSC]
	_, nil3 := gb.refreshingScRefs[nilSC]
	check(!nil1 && !nil2 && !nil3, "C05,C07: I-pool the nil connection is a key of a balancer map")
	for j := 0; j < vR; j++ {
		for j2 := j + 1; j2 < vR; j2++ {
			check(w.refs[j].subConn != w.refs[j2].subConn, "C01,C03: I-pool two channels own the same connection")
		}
		check(w.refs[j].subConn != nil, "C05: I-pool slot without a connection")
		check(w.refs[j].stateSignal != nil, "C06,C09: I-sig nil state signal")
	}
	check(gb.csEvltr.numReady == nr, "C04: I-cnt numReady is not the number of READY pool connections")
	check(gb.csEvltr.numConnecting == nc, "C04: I-cnt numConnecting is not the number of CONNECTING pool connections")
	check(gb.csEvltr.numTransientFailure == nt, "C04: I-cnt numTransientFailure is not the number of TRANSIENT_FAILURE pool connections")
	ev := verifEval(nr, nc)
	check(verifImplies(!cc.published, nr == 0), "C04: I-agg a connection is READY but nothing was published")
	check(verifImplies(!cc.published, verifOr(verifAnd(gb.state == connectivity.Idle, nc == 0 && nt == 0), verifAnd(gb.state == connectivity.Connecting, nc > 0))), "C04: I-agg unpublished balancer in an impossible state")
	check(verifImplies(cc.published, gb.state == ev), "C04: I-agg aggregate state does not match the pool")
	check(verifImplies(cc.published, cc.lastState == gb.state), "C04: I-agg last published state is not the aggregate state")
	check(verifImplies(cc.published, cc.lastPicker == gb.picker), "C04: I-agg last published picker is not the balancer's picker")
	check(verifImplies(!cc.published, gb.picker == balancer.Picker(w.errNo)), "C04: I-pick unpublished balancer without the initial picker")
	ep, isErr := gb.picker.(*errPicker)
	gp, isGcp := gb.picker.(*gcpPicker)
	check(verifOr(isErr, isGcp), "C04: I-pick unknown picker type")
	check(verifImplies(cc.published, (gb.state == connectivity.TransientFailure) == isErr), "C04: I-pick error picker published iff TRANSIENT_FAILURE")
	if isErr {
		check(ep != nil, "C04: I-pick nil error picker")
		check(verifImplies(cc.published, ep.err == balancer.ErrTransientFailure), "C04: I-pick published error picker does not fail with ErrTransientFailure")
		check(verifImplies(!cc.published, ep.err == balancer.ErrNoSubConnAvailable), "C04: I-pick initial picker does not tell calls to wait")
	}
	cur := w.other
	if isGcp {
		check(gp != nil && gp.gb == gb, "C04: I-pick picker of another balancer")
		cur = gp
		for j := 0; j < vR; j++ {
			check(verifInPicker(gp, w.refs[j]) == w.ready(w.refs[j]), "C02,C03,C04: I-pick published picker's slots are not exactly the READY pool connections")
		}
	}
	// pickers hold duplicate-free lists of listed slots
	for _, p := range []*gcpPicker{cur, w.pk, w.other} {
		for a := 0; a < vR+vF; a++ {
			if a < len(p.scRefs) {
				check(w.listed(p.scRefs[a]), "C02: I-list picker slot is not in scRefList")
				for b := a + 1; b < vR+vF; b++ {
					if b < len(p.scRefs) {
						check(p.scRefs[a] != p.scRefs[b], "C02,C04: I-pick picker lists a slot twice")
					}
				}
			}
		}
	}
	// affinity and fallback tables
	for x := 0; x < vK; x++ {
		k := w.keys[x]
		fsc, hasFb := gb.fallbackMap[k]
		if hasFb {
			fr, fin := gb.scRefs[fsc]
			check(verifAnd(fin, fr != nil), "C08: I-fb stand-in is not a pool connection")
			check(gb.scStates[fsc] == connectivity.Ready, "C08: I-fb stand-in is not READY")
		}
		if asc, bound := gb.affinityMap[k]; bound {
			check(asc != nil, "C01: I-aff key bound to a nil connection")
			_, isRepl := gb.refreshingScRefs[asc]
			check(!isRepl, "C01: I-aff key bound to a replacement connection")
		}
	}
	for j := 0; j < vR; j++ {
		r := w.refs[j]
		check(r.streamsCnt >= 0 && r.streamsCnt <= 1<<30, "C02: I-strm stream counter negative or beyond the stated bound on concurrent streams")
		check(!r.lastResp.After(verifClock), "C07: I-time last response in the future")
	}
	if !verifFlag("noaddr") {
		for i := 0; i < vM+vF; i++ {
			_, inPool := gb.scRefs[w.conn(i)]
			var sc *verifSC
			if i < vM {
				sc = w.scs[i]
			} else {
				sc = cc.fresh[i-vM]
			}
			check(verifImplies(inPool, sc.addrTag == verifAddrTag(gb.addrs)), "C20: I-addr pool connection does not use the most recently resolved address list")
			_, isRepl := gb.refreshingScRefs[w.conn(i)]
			check(verifImplies(isRepl, sc.addrTag == verifAddrTag(gb.addrs)), "C20: I-addr replacement connection of a refresh in flight does not use the most recently resolved address list")
		}
	}
}

func (w *verifWorld) assumeInv() { w.inv(func(c bool, _ string) { verifAssume(c) }) }

// assertInv: Inv_gb is re-established by the operation.  Every pool property is decided by the
// inductive argument "from any Inv_gb state, one operation ..." - if an operation leaves Inv_gb, that
// argument is void for all of them, so a broken conjunct counts for every pool property (the
// conjunct's own label says which part of the representation it is about).
func (w *verifWorld) assertInv() {
	verifBatch(true)
	w.inv(func(c bool, label string) {
		verifAssert(c, "C01,C02,C03,C04,C05,C06,C07,C08,C09,C20: Inv_gb not re-established: "+label)
	})
	verifBatch(false)
}

const vMethods = 4

// verifMkWorld builds an arbitrary balancer state over the bounded universe and assumes Inv_gb.
func verifMkWorld() *verifWorld {
	w := &verifWorld{}
	cc := &verifCC{fresh: []*verifSC{{id: 100}, {id: 101}}, failNew: verifBool("failNew")}
	w.cc = cc
	gb := &gcpBalancer{
		cc:               cc,
		methodCfg:        make(map[string]*pb.AffinityConfig),
		affinityMap:      make(map[string]balancer.SubConn),
		fallbackMap:      make(map[string]balancer.SubConn),
		scRefs:           make(map[balancer.SubConn]*subConnRef),
		scStates:         make(map[balancer.SubConn]connectivity.State),
		refreshingScRefs: make(map[balancer.SubConn]*subConnRef),
		csEvltr:          &connectivityStateEvaluator{},
		log:              &verifLogger{verbose: verifBool("verbose")},
	}
	w.gb = gb
	gb.cfg = &GCPBalancerConfig{ApiConfig: &pb.ApiConfig{ChannelPool: &pb.ChannelPoolConfig{
		MinSize: verifU32("minSize"), MaxSize: verifU32("maxSize"), MaxConcurrentStreamsLowWatermark: verifU32("wm"),
		FallbackToReady: verifBool("fallback"), UnresponsiveCalls: verifU32("calls"), UnresponsiveDetectionMs: verifU32("ms"),
	}}}
	cp := gb.cfg.ChannelPool
	verifAssume(cp.MinSize >= 1 && cp.MaxSize >= 1 && cp.MaxConcurrentStreamsLowWatermark >= 1)
	gb.unresponsiveDetection = cp.UnresponsiveCalls > 0 && cp.UnresponsiveDetectionMs > 0
	if verifFlag("rr") {
		cp.BindPickStrategy = pb.ChannelPoolConfig_ROUND_ROBIN
	}
	gb.methodCfg["/bind"] = &pb.AffinityConfig{Command: pb.AffinityConfig_BIND, AffinityKey: "keys"}
	gb.methodCfg["/bound"] = &pb.AffinityConfig{Command: pb.AffinityConfig_BOUND, AffinityKey: "keys"}
	gb.methodCfg["/unbind"] = &pb.AffinityConfig{Command: pb.AffinityConfig_UNBIND, AffinityKey: "keys"}
	deErr = &verifErrKind{kind: 1}
	na := verifInt("gbaddrs_n")
	verifAssume(na >= 0 && na <= 2)
	gb.addrs = []resolver.Address{{Addr: verifChoose("gbaddr0", "x", "y", "z")}, {Addr: "w"}}[:na]
	for i := 0; i < vM; i++ {
		w.scs[i] = &verifSC{id: i}
	}
	for j := 0; j < vR; j++ {
		w.dead[j] = &verifSC{id: 50 + j}
	}
	for x := 0; x < vK; x++ {
		w.keys[x] = verifStr("key" + verifD(x))
		if x > 0 {
			// keys[0] may be the empty string: a BIND reply with an empty key binds it, although no call
			// is ever routed by it
			verifAssume(w.keys[x] != "")
		}
		for y := 0; y < x; y++ {
			verifAssume(w.keys[x] != w.keys[y])
		}
	}
	verifClock = verifTime("now")
	verifAssume(!verifClock.Before(time.Unix(0, 0)) && verifClock.Before(time.Unix(0, 1<<61)))
	for j := 0; j < vR; j++ {
		w.refs[j] = &subConnRef{stateSignal: make(chan struct{})}
		gb.scRefList = append(gb.scRefList, w.refs[j])
	}
	w.nList = verifInt("nList")
	verifAssume(w.nList >= 0 && w.nList <= vR)
	gb.scRefList = gb.scRefList[:w.nList]
	w.errTF = &errPicker{err: balancer.ErrTransientFailure}
	w.errNo = &errPicker{err: balancer.ErrNoSubConnAvailable}
	w.pk = &gcpPicker{gb: gb, log: gb.log}
	w.other = &gcpPicker{gb: gb, log: gb.log}
	w.fill("")
	verifLockProbe = func() bool {
		free := true
		if gb.mu.TryLock() {
			gb.mu.Unlock()
		} else {
			free = false
		}
		for _, p := range []*gcpPicker{w.pk, w.other} {
			if p.mu.TryLock() {
				p.mu.Unlock()
			} else {
				free = false
			}
		}
		return free
	}
	return w
}

// fill (re)assigns every mutable part of the balancer state from fresh symbolic values and assumes
// Inv_gb.  With a suffix ending in "@" it is the havoc step of patterns P2/P3: object identities,
// configuration and the universe stay, everything else is arbitrary again.
func (w *verifWorld) fill(sfx string) {
	gb, cc := w.gb, w.cc
	for i := 0; i < vM+vF; i++ {
		sc := w.conn(i)
		delete(gb.scRefs, sc)
		delete(gb.scStates, sc)
		delete(gb.refreshingScRefs, sc)
	}
	for x := 0; x < vK; x++ {
		delete(gb.affinityMap, w.keys[x])
		delete(gb.fallbackMap, w.keys[x])
	}
	gb.csEvltr.numReady, gb.csEvltr.numConnecting, gb.csEvltr.numTransientFailure = verifU64("nr"+sfx), verifU64("nc"+sfx), verifU64("nt"+sfx)
	gb.state = connectivity.State(verifInt("gbstate" + sfx))
	verifAssume(gb.state >= 0 && gb.state <= 3)
	verifSetInt(&gb.rrRefId, uint64(verifU32("rrRefId"+sfx))) // (whatever integer type the cursor has)
	for j := 0; j < vR; j++ {
		r := w.refs[j]
		d := verifD(j)
		r.subConn = verifChoose("refsc"+d+sfx, w.scList(w.dead[j])...)
		r.streamsCnt = verifI32("streams" + d + sfx)
		verifAssume(r.streamsCnt < 1<<30)
		r.affinityCnt = verifI32("affcnt" + d + sfx)
		r.refreshing = verifBool("refreshing" + d + sfx)
		r.lastResp = verifTime("lastResp" + d + sfx)
		verifAssume(!r.lastResp.Before(time.Unix(0, 0)))
		r.deCalls = verifU32("deCalls" + d + sfx)
		r.refreshCnt = verifU32("refreshCnt" + d + sfx)
		if sfx != "" && verifBool("stateChanged"+d+sfx) {
			// a state report for this channel arrived meanwhile: its signal was closed and re-created
			close(r.stateSignal)
			r.stateSignal = make(chan struct{})
		}
	}
	for i := 0; i < vM; i++ {
		sc := balancer.SubConn(w.scs[i])
		d := verifD(i)
		inPool := verifBool("inPool" + d + sfx)
		slot := w.anyRef("slot" + d + sfx)
		verifMapPut(gb.scRefs, sc, slot, inPool)
		st := connectivity.State(verifInt("st" + d + sfx))
		verifAssume(st >= 0 && st <= 3)
		verifMapPut(gb.scStates, sc, st, inPool)
		isRepl := verifBool("isRepl" + d + sfx)
		rslot := w.anyRef("rslot" + d + sfx)
		verifMapPut(gb.refreshingScRefs, sc, rslot, isRepl)
		w.scs[i].addrTag = verifInt("addrTag" + d + sfx)
	}
	for x := 0; x < vK; x++ {
		d := verifD(x)
		verifMapPut(gb.affinityMap, w.keys[x], verifChoose("aff"+d+sfx, w.scList(w.deadList()...)...), verifBool("bound"+d+sfx))
		verifMapPut(gb.fallbackMap, w.keys[x], verifChoose("fb"+d+sfx, w.scList()...), verifBool("hasFb"+d+sfx))
	}
	// pickers: duplicate-free lists of slots
	for pi, p := range []*gcpPicker{w.pk, w.other} {
		d := verifD(pi)
		list := []*subConnRef{}
		for q := 0; q < vR; q++ {
			list = append(list, w.anyRef("pk"+d+"_"+verifD(q)+sfx))
		}
		n := verifInt("pk" + d + "_len" + sfx)
		verifAssume(n >= 0 && n <= vR)
		p.scRefs = list[:n]
	}
	gb.picker = verifChoose[balancer.Picker]("picker"+sfx, w.pk, w.other, w.errTF, w.errNo)
	cc.published = verifBool("published" + sfx)
	cc.lastState = connectivity.State(verifInt("lastState" + sfx))
	cc.lastPicker = verifChoose[balancer.Picker]("lastPicker"+sfx, w.pk, w.other, w.errTF, w.errNo)
	w.assumeInv()
}
