//go:build verif && go1.21

package grpcgcp

import (
	"google.golang.org/grpc/balancer"
	"google.golang.org/grpc/connectivity"
)

// One arbitrary state report from an arbitrary Inv state.
func VerifH_usc() {
	w := verifMkWorld()
	gb, cc := w.gb, w.cc
	sc := verifChoose[balancer.SubConn]("arg_sc", w.scs[0], w.scs[1], cc.fresh[0])
	s := connectivity.State(verifInt("arg_state"))
	verifAssume(s >= 0 && s <= 4)
	pub0 := cc.pubCount
	oldS, known := gb.scStates[sc]
	wasReady := verifAnd(known, oldS == connectivity.Ready)
	oldAggTF := gb.state == connectivity.TransientFailure
	_, isRepl := gb.refreshingScRefs[sc]
	verifReach("before")
	gb.UpdateSubConnState(sc, balancer.SubConnState{ConnectivityState: s})
	verifReach("after")
	verifAssert(verifLocksFree(), "lock left held")
	w.inv(func(c bool, label string) { verifAssert(c, label) })
	// C04 publish obligation (only the "must publish" direction) for pool members
	nowS, stillKnown := gb.scStates[sc]
	isReady := verifAnd(stillKnown, nowS == connectivity.Ready)
	changed := verifAnd(verifAnd(known, !isRepl), wasReady != isReady)
	tfCross := verifAnd(cc.published, (gb.state == connectivity.TransientFailure) != oldAggTF)
	verifAssert(verifImplies(changed, cc.pubCount > pub0), "C04: readiness change not published")
	verifAssert(verifImplies(verifAnd(known, tfCross), cc.pubCount > pub0), "C04: TF crossing not published")
}
