//go:build verif && go1.21

package grpcgcp

import (
	"context"

	"github.com/GoogleCloudPlatform/grpc-gcp-go/grpcgcp/multiendpoint"
	"google.golang.org/grpc"
	"google.golang.org/grpc/connectivity"

	pb "github.com/GoogleCloudPlatform/grpc-gcp-go/grpcgcp/grpc_gcp"
)

// ghost state of dialed connections and monitor contexts (DESIGN.md section 4.2: *grpc.ClientConn
// is opaque; its methods are redirected to the verifConn* summaries below)
type vConn struct {
	cc      *grpc.ClientConn
	target  string
	closed  bool
	ready   bool
	monitor int // index of the monitor context created for it
	invoked int
}

const vMaxConns = 8

var (
	vConns     [vMaxConns]*vConn
	vNConns    int
	vCancelled [vMaxConns]bool
	vSpawned   int
	vDialFail  int // index of the dial that fails, -1 for none
	vDials     int
	vCloseErr  bool
)

func vGhost(cc *grpc.ClientConn) *vConn {
	var g *vConn
	for i := 0; i < vMaxConns; i++ {
		if i < vNConns && vConns[i].cc == cc {
			g = vConns[i]
		}
	}
	return g
}

// monitor harness: the pool's connectivity may change between any two reads of it
var (
	vMonitorMode bool
	vMonReads    int
	vMonWaits    int
	vMonParked   bool
)

func verifConnGetState(cc *grpc.ClientConn) connectivity.State {
	g := vGhost(cc)
	if vMonitorMode {
		g.ready = verifBool("monReady" + verifD(vMonReads))
		vMonReads++
	}
	if g.ready {
		return connectivity.Ready
	}
	return connectivity.TransientFailure
}

// WaitForStateChange(ctx, s): returns true at once when the pool is not (or no longer) in state s;
// otherwise the caller sleeps until the next change - the harness ends the run there (false).
// The pool may have changed state since the caller last looked (during notify).
func verifConnWaitForStateChange(cc *grpc.ClientConn, ctx context.Context, s connectivity.State) bool {
	g := vGhost(cc)
	vMonWaits++
	if vMonitorMode && vMonWaits < 3 && verifBool("changedMeanwhile"+verifD(vMonWaits)) {
		g.ready = !g.ready
	}
	cur := connectivity.TransientFailure
	if g.ready {
		cur = connectivity.Ready
	}
	if cur != s && vMonWaits < 3 {
		return true
	}
	vMonParked = cur == s
	return false
}
func verifConnClose(cc *grpc.ClientConn) error {
	vGhost(cc).closed = true
	if vCloseErr {
		return verifErr{}
	}
	return nil
}
func verifConnInvoke(cc *grpc.ClientConn, ctx context.Context, method string, args, reply interface{}, opts ...grpc.CallOption) error {
	vGhost(cc).invoked++
	return nil
}
func verifConnNewStream(cc *grpc.ClientConn, ctx context.Context, desc *grpc.StreamDesc, method string, opts ...grpc.CallOption) (grpc.ClientStream, error) {
	vGhost(cc).invoked++
	return nil, nil
}
func verifWithCancel(parent context.Context) (context.Context, context.CancelFunc) {
	i := vSpawned
	vSpawned++
	return &verifCtx{}, func() { vCancelled[i] = true }
}

func vDial(ctx context.Context, target string, opts ...grpc.DialOption) (*grpc.ClientConn, error) {
	i := vDials
	vDials++
	if i == vDialFail {
		return nil, verifErr{}
	}
	c := &vConn{cc: &grpc.ClientConn{}, target: target, ready: verifBool("ready@"), monitor: vSpawned}
	vConns[vNConns] = c
	vNConns++
	return c.cc, nil
}

func vEpName(i int) string {
	switch i {
	case 0:
		return "ep-a"
	case 1:
		return "ep-b"
	}
	return "ep-c"
}

// vEndpoints: a duplicate-free list of minLen..2 endpoints out of 3.
func vEndpoints(tag string, minLen int) []string {
	n := verifInt(tag + "_n")
	verifAssume(n >= minLen && n <= 2)
	l := []string{verifChoose(tag+"_e0", "ep-a", "ep-b", "ep-c"), verifChoose(tag+"_e1", "ep-a", "ep-b", "ep-c")}
	verifAssume(l[0] != l[1])
	return l[:n]
}

func vReset2() {
	vNConns, vDials, vSpawned = 0, 0, 0
	vDialFail = -1
	vCloseErr = false
	for i := 0; i < vMaxConns; i++ {
		vCancelled[i] = false
		vConns[i] = nil
	}
}

// vRoute: the connection an RPC with this MultiEndpoint name in its context is sent on.
func vRoute(gme *GCPMultiEndpoint, name string, named bool) *grpc.ClientConn {
	var ctx context.Context = &verifCtx{}
	if named {
		ctx = NewMEContext(ctx, name)
	}
	return gme.pickConn(ctx)
}

func vInList(l []string, s string) bool {
	in := false
	for i := 0; i < 2; i++ {
		if i < len(l) && l[i] == s {
			in = true
		}
	}
	return in
}

// firstReady: the first endpoint of l whose pool is READY ("" if none).
func vFirstReady(gme *GCPMultiEndpoint, l []string) string {
	best := ""
	for i := 1; i >= 0; i-- {
		if i < len(l) {
			if mc, ok := gme.pools[l[i]]; ok && mc != nil && vGhost(mc.conn).ready {
				best = l[i]
			}
		}
	}
	return best
}

// Construction with valid options, then one arbitrary UpdateMultiEndpoints, RPCs, Close.
func VerifH_gme() {
	vReset2()
	cfg := &pb.ApiConfig{ChannelPool: &pb.ChannelPoolConfig{MaxSize: verifU32("cfgMax")}}
	// initial configuration: one of three concrete shapes (endpoint names are symmetric)
	var dflt, read []string
	hasRead := true
	switch verifCase("init") {
	case 0:
		dflt, read = []string{"ep-a", "ep-b"}, []string{"ep-b"}
	case 1:
		dflt, hasRead = []string{"ep-a"}, false
	default:
		dflt, read = []string{"ep-a", "ep-b"}, []string{"ep-c", "ep-a"}
	}
	opts := &GCPMultiEndpointOptions{
		GRPCgcpConfig:  cfg,
		MultiEndpoints: map[string]*multiendpoint.MultiEndpointOptions{"default": {Endpoints: dflt}},
		Default:        "default",
		DialFunc:       vDial,
	}
	if hasRead {
		opts.MultiEndpoints["read"] = &multiendpoint.MultiEndpointOptions{Endpoints: read}
	}
	gme, err := NewGCPMultiEndpoint(opts)
	verifAssert(err == nil && gme != nil, "C16: valid construction failed")
	verifReach("constructed")
	// C17: GCPMultiEndpoint neither mutates nor aliases the caller's configuration; GCPConfig() is an equal deep copy
	verifAssert(cfg.ChannelPool != nil && cfg.ChannelPool.MaxSize == verifU32("cfgMax") && cfg.ChannelPool.MinSize == 0, "C17: GCPMultiEndpoint mutated the caller's configuration")
	verifAssert(gme.gcpConfig != cfg && gme.gcpConfig.ChannelPool != cfg.ChannelPool, "C17: GCPMultiEndpoint aliases the caller's configuration")
	gc := gme.GCPConfig()
	verifAssert(gc != nil && gc != gme.gcpConfig && gc.ChannelPool != nil && gc.ChannelPool != gme.gcpConfig.ChannelPool && gc.ChannelPool.MaxSize == cfg.ChannelPool.MaxSize && len(gc.Method) == 0, "C17: GCPConfig() is not an equal deep copy")
	// exactly one open pool per distinct endpoint, each with a running monitor
	for i := 0; i < 3; i++ {
		e := vEpName(i)
		mentioned := vInList(dflt, e) || (hasRead && vInList(read, e))
		mc, ok := gme.pools[e]
		verifAssert(ok == mentioned, "C15: pools after construction are not exactly the endpoints mentioned")
		if ok {
			g := vGhost(mc.conn)
			verifAssert(g != nil && !g.closed && !vCancelled[g.monitor], "C15: pool after construction is closed or unmonitored")
		}
	}
	verifAssert(vDials == vNConns && vSpawned == vNConns, "C15: dials / monitors do not match the pools")
	nBefore := vNConns

	// ---- one arbitrary update ----
	upd := &GCPMultiEndpointOptions{
		MultiEndpoints: map[string]*multiendpoint.MultiEndpointOptions{},
		Default:        []string{"default", "read", "other"}[verifCase("udef")],
	}
	var uD, uR, uO []string
	hasD, hasR, hasO := verifCase("ud") == 1, verifCase("ur") == 1, false
	if hasD {
		uD = vEndpoints("upd_d", 0)
		upd.MultiEndpoints["default"] = &multiendpoint.MultiEndpointOptions{Endpoints: uD}
	}
	if hasR {
		uR = vEndpoints("upd_r", 0)
		upd.MultiEndpoints["read"] = &multiendpoint.MultiEndpointOptions{Endpoints: uR}
	}
	if hasO {
		uO = vEndpoints("upd_o", 0)
		upd.MultiEndpoints["other"] = &multiendpoint.MultiEndpointOptions{Endpoints: uO}
	}
	vDialFail = verifInt("dialFail")
	verifAssume(vDialFail >= -1 && vDialFail <= vDials+2)
	defaultMissing := !((upd.Default == "default" && hasD) || (upd.Default == "read" && hasR) || (upd.Default == "other" && hasO))
	emptyList := (hasD && len(uD) == 0) || (hasR && len(uR) == 0) || (hasO && len(uO) == 0)
	invalid := defaultMissing || emptyList
	var before [4]*grpc.ClientConn
	before[0], before[1], before[2], before[3] = vRoute(gme, "", false), vRoute(gme, "default", true), vRoute(gme, "read", true), vRoute(gme, "nosuch", true)
	for i := 0; i < 4; i++ {
		g := vGhost(before[i])
		verifAssert(g != nil && !g.closed, "C15: RPC routed to a missing or closed pool after construction")
	}
	dials0 := vDials
	verifKnown("F-nonatomic", !invalid && vDialFail >= dials0) // a dial of this update is set to fail
	vCloseErr = verifBool("closeFailsInUpdate")                // closing an obsolete pool may report an error (it is closed nevertheless)
	uerr := gme.UpdateMultiEndpoints(upd)
	vCloseErr = false
	verifReach("updated")
	verifLockProbe = func() bool {
		if gme.mu.TryLock() {
			gme.mu.Unlock()
			return true
		}
		return false
	}
	verifAssert(verifLocksFree(), "C15,C16: UpdateMultiEndpoints left a lock held")
	dialFailed := vDialFail >= dials0 && vDialFail < vDials
	verifAssert(verifImplies(invalid || dialFailed, uerr != nil), "C16: invalid options or a dial failure accepted")
	if uerr == nil {
		verifReach("update accepted")
	}
	// C16: no accepted or rejected update can make a later RPC panic or use a closed pool
	var after [4]*grpc.ClientConn
	after[0], after[1], after[2], after[3] = vRoute(gme, "", false), vRoute(gme, "default", true), vRoute(gme, "read", true), vRoute(gme, "nosuch", true)
	for i := 0; i < 4; i++ {
		g := vGhost(after[i])
		verifAssert(g != nil, "C16: after an update an RPC is routed to a pool that does not exist")
		if g != nil {
			verifAssert(!g.closed, "C16: after an update an RPC is routed to a closed pool")
		}
		verifAssert(verifImplies(uerr != nil, after[i] == before[i]), "C16: rejected update changed how an RPC is routed")
	}
	if uerr != nil {
		verifReach("update rejected")
		for i := 0; i < vMaxConns; i++ {
			if i < nBefore {
				verifAssert(!vConns[i].closed && !vCancelled[vConns[i].monitor], "C16: rejected update closed a pool or stopped a monitor")
			}
			if i >= nBefore && i < vNConns {
				verifAssert(vConns[i].closed && vCancelled[vConns[i].monitor], "C16: rejected update left a newly dialed connection or its monitor behind")
			}
		}
	}
	if uerr == nil && !invalid {
		// C15: exactly one open pool per distinct endpoint mentioned; kept pools not re-dialed
		for i := 0; i < 3; i++ {
			e := vEpName(i)
			mentioned := (hasD && vInList(uD, e)) || (hasR && vInList(uR, e)) || (hasO && vInList(uO, e))
			mc, ok := gme.pools[e]
			verifAssert(ok == mentioned, "C15: after an accepted update pools are not exactly the endpoints mentioned")
			if ok {
				g := vGhost(mc.conn)
				verifAssert(g != nil && !g.closed && !vCancelled[g.monitor], "C15: pool of a mentioned endpoint is closed or unmonitored")
			}
		}
		for i := 0; i < vMaxConns; i++ {
			if i < vNConns {
				c := vConns[i]
				mc, ok := gme.pools[c.target]
				inUse := ok && mc.conn == c.cc
				verifAssert(inUse || (c.closed && vCancelled[c.monitor]), "C15: pool of an endpoint no longer mentioned was not closed and its monitor stopped")
				if i < nBefore {
					mentioned := (hasD && vInList(uD, c.target)) || (hasR && vInList(uR, c.target)) || (hasO && vInList(uO, c.target))
					verifAssert(verifImplies(mentioned, inUse), "C15: pool of an endpoint still mentioned was re-dialed or dropped")
				}
			}
		}
		// routing: named MultiEndpoint, else default; every MultiEndpoint already reflects pool connectivity
		want := func(l []string) string { return vFirstReady(gme, l) }
		check := func(name string, present bool, l []string, got *grpc.ClientConn) {
			if !present {
				return
			}
			me := gme.mes[name]
			verifAssert(me != nil, "C15: configured MultiEndpoint missing")
			cur := me.Current()
			verifAssert(vInList(l, cur), "C15: MultiEndpoint's current endpoint is not one of its configured endpoints")
			if w := want(l); w != "" {
				verifAssert(cur == w, "C15: MultiEndpoint does not reflect the connectivity of its pools when the update returns")
			}
			verifAssert(gme.pools[cur] != nil && got == gme.pools[cur].conn, "C15: RPC not routed via the pool of the named MultiEndpoint's current endpoint")
		}
		check("default", hasD, uD, after[1])
		check("read", hasR, uR, after[2])
		dflt := gme.mes[upd.Default]
		verifAssert(dflt != nil && after[0] == gme.pools[dflt.Current()].conn && after[3] == after[0], "C15: RPC without a (known) MultiEndpoint name not routed via the default MultiEndpoint")
		if !hasD {
			verifAssert(after[1] == after[0], "C15: RPC naming a removed MultiEndpoint not routed via the default")
		}
	}
	// Invoke / NewStream go through pickConn
	inv0 := vGhost(after[0]).invoked
	gme.Invoke(&verifCtx{}, "/m", nil, nil)
	gme.NewStream(&verifCtx{}, &grpc.StreamDesc{}, "/m")
	verifAssert(vGhost(vRoute(gme, "", false)).invoked == inv0+2, "C15: Invoke/NewStream not issued on the routed pool")
	// Close releases everything
	vCloseErr = verifBool("closeFails")
	cerr := gme.Close()
	verifAssert((cerr != nil) == (vCloseErr && len(gme.pools) > 0), "C16: Close does not report close errors")
	for i := 0; i < vMaxConns; i++ {
		if i < vNConns {
			verifAssert(vConns[i].closed && vCancelled[vConns[i].monitor], "C16: Close left a pool open or a monitor running")
		}
	}
	verifObserve("conns", uint64(vNConns))
	verifObserve("uerr", verifB2U(uerr != nil))
}

// Failed construction leaves nothing behind.
func VerifH_gmenew() {
	vReset2()
	kind := verifCase("bad")
	opts := &GCPMultiEndpointOptions{
		MultiEndpoints: map[string]*multiendpoint.MultiEndpointOptions{"default": {Endpoints: vEndpoints("d", 1)}, "read": {Endpoints: vEndpoints("r", 1)}},
		Default:        "default",
		DialFunc:       vDial,
	}
	switch kind {
	case 0:
		opts.Default = "nosuch"
	case 1:
		opts.MultiEndpoints["read"].Endpoints = []string{}
	case 2:
		vDialFail = verifInt("dialFail")
		verifAssume(vDialFail >= 0 && vDialFail <= 1)
	}
	verifKnown("F-nonatomic", kind == 2)
	gme, err := NewGCPMultiEndpoint(opts)
	verifReach("returned")
	if kind == 2 {
		verifAssume(vDialFail < vDials) // the failing dial was actually reached
	}
	verifAssert(err != nil && gme == nil, "C16: construction with invalid options or a failing dial succeeded")
	for i := 0; i < vMaxConns; i++ {
		if i < vNConns {
			verifAssert(vConns[i].closed && vCancelled[vConns[i].monitor], "C16: failed construction left a connection or a monitor goroutine behind")
		}
	}
	verifObserve("conns", uint64(vNConns))
}

// One monitor iteration (notify) after a connectivity change informs every MultiEndpoint that
// contains the endpoint; routing follows at once (no recovery timeout / switching delay configured).
func VerifH_gmenotify() {
	vReset2()
	dflt, read := []string{"ep-a", "ep-b"}, []string{"ep-b", "ep-c"}
	opts := &GCPMultiEndpointOptions{
		MultiEndpoints: map[string]*multiendpoint.MultiEndpointOptions{"default": {Endpoints: dflt}, "read": {Endpoints: read}},
		Default:        "default",
		DialFunc:       vDial,
	}
	gme, err := NewGCPMultiEndpoint(opts)
	verifAssert(err == nil && gme != nil, "C16: valid construction failed")
	for round := 0; round < 2; round++ {
		e := vEpName(verifCase("flip" + verifD(round)))
		mc := gme.pools[e]
		verifAssert(mc != nil, "C15: pool missing")
		g := vGhost(mc.conn)
		g.ready = verifBool("nowReady" + verifD(round))
		st := connectivity.Connecting
		if g.ready {
			st = connectivity.Ready
		}
		mc.notify(st)
		verifAssert(verifLocksFree(), "C15: notify left a lock held")
		if w := vFirstReady(gme, dflt); w != "" {
			verifAssert(gme.mes["default"].Current() == w, "C15: routing of a MultiEndpoint does not follow a connectivity change reported by the pool's monitor")
		}
		if w := vFirstReady(gme, read); w != "" {
			verifAssert(gme.mes["read"].Current() == w, "C15: routing of a MultiEndpoint does not follow a connectivity change reported by the pool's monitor")
		}
		verifAssert(vRoute(gme, "read", true) == gme.pools[gme.mes["read"].Current()].conn && vRoute(gme, "", false) == gme.pools[gme.mes["default"].Current()].conn, "C15: RPC not routed via the current endpoint's pool")
	}
	verifReach("end")
	verifObserve("conns", uint64(vNConns))
}

// The real monitor loop of one pool: whenever it goes to sleep waiting for the next connectivity
// change, every MultiEndpoint has been told the state the pool is actually in (C15: routing follows
// a connectivity change within bounded time - a change the monitor sleeps through is never reported).
func VerifH_gmemonitor() {
	vReset2()
	dflt, read := []string{"ep-a", "ep-b"}, []string{"ep-b", "ep-c"}
	opts := &GCPMultiEndpointOptions{
		MultiEndpoints: map[string]*multiendpoint.MultiEndpointOptions{"default": {Endpoints: dflt}, "read": {Endpoints: read}},
		Default:        "default",
		DialFunc:       vDial,
	}
	gme, err := NewGCPMultiEndpoint(opts)
	verifAssert(err == nil && gme != nil, "C16: valid construction failed")
	mc := gme.pools[vEpName(verifCase("ep"))]
	verifAssert(mc != nil, "C15: pool missing")
	vMonitorMode, vMonReads, vMonWaits, vMonParked = true, 0, 0, false
	mc.monitor(&verifCtx{})
	vMonitorMode = false
	verifAssert(verifLocksFree(), "C15: monitor left a lock held")
	if vMonParked {
		verifReach("monitor sleeps")
		if w := vFirstReady(gme, dflt); w != "" {
			verifAssert(gme.mes["default"].Current() == w, "C15: the pool's monitor went to sleep without having reported the pool's current connectivity (routing does not follow the change)")
		}
		if w := vFirstReady(gme, read); w != "" {
			verifAssert(gme.mes["read"].Current() == w, "C15: the pool's monitor went to sleep without having reported the pool's current connectivity (routing does not follow the change)")
		}
	}
	verifReach("end")
	verifObserve("reads", uint64(vMonReads))
	verifObserve("waits", uint64(vMonWaits))
}

// native replay only (see rewrite.json): the monitor goroutine is not started, a state change never comes
func verifGo(f func()) {}

// Pattern P3 for GCPMultiEndpoint: an RPC is being routed while UpdateMultiEndpoints runs on another
// goroutine.  Whenever pickConn re-acquires gme.mu after having released it, the reconfiguration
// runs to completion in the gap (the real UpdateMultiEndpoints, inline).
var (
	verifGme       *GCPMultiEndpoint
	verifGmeArmed  bool
	verifGmeLocks  int
	verifGmeUpd    *GCPMultiEndpointOptions
	verifGmeBudget int
)

func verifOnLockGme() {
	if verifGmeBudget == 0 {
		return
	}
	verifGmeBudget--
	verifGmeArmed = false
	verifGme.UpdateMultiEndpoints(verifGmeUpd)
	verifGmeArmed = true
}

func VerifH_gmep3() {
	vReset2()
	opts := &GCPMultiEndpointOptions{
		MultiEndpoints: map[string]*multiendpoint.MultiEndpointOptions{"default": {Endpoints: []string{"ep-a", "ep-b"}}, "read": {Endpoints: []string{"ep-c"}}},
		Default:        "default",
		DialFunc:       vDial,
	}
	gme, err := NewGCPMultiEndpoint(opts)
	verifAssume(err == nil && gme != nil)
	upd := &GCPMultiEndpointOptions{MultiEndpoints: map[string]*multiendpoint.MultiEndpointOptions{"default": {Endpoints: vEndpoints("upd_d", 1)}}, Default: "default"}
	if verifBool("upd_has_read") {
		upd.MultiEndpoints["read"] = &multiendpoint.MultiEndpointOptions{Endpoints: vEndpoints("upd_r", 1)}
	}
	verifGme, verifGmeUpd, verifGmeLocks, verifGmeBudget = gme, upd, 0, 1
	name := verifChoose("ctxName", "default", "read", "nosuch")
	verifResetLocks()
	verifGmeArmed = true
	cc := vRoute(gme, name, true)
	verifGmeArmed = false
	verifReach("routed")
	g := vGhost(cc)
	verifAssert(g != nil, "C15,C16: RPC routed concurrently with a reconfiguration goes through no pool")
	// the pool the RPC goes through was current for its MultiEndpoint before or after the update: it is
	// a pool that existed at some point; it must not be one that was never configured for that name
	verifObserve("interfered", uint64(1-verifGmeBudget))
}

// Name resolution of pickConn, including a MultiEndpoint whose name is the empty string: a context
// that names no MultiEndpoint goes to the default one, not to the one named "".
func VerifH_gmenames() {
	vReset2()
	dName := []string{"default", ""}[verifCase("defaultIsEmptyName")]
	oName := []string{"", "default"}[verifCase("defaultIsEmptyName")]
	opts := &GCPMultiEndpointOptions{
		MultiEndpoints: map[string]*multiendpoint.MultiEndpointOptions{dName: {Endpoints: []string{"ep-a"}}, oName: {Endpoints: []string{"ep-b"}}},
		Default:        dName,
		DialFunc:       vDial,
	}
	gme, err := NewGCPMultiEndpoint(opts)
	verifAssert(err == nil && gme != nil, "C16: valid construction failed")
	dConn, oConn := gme.pools["ep-a"].conn, gme.pools["ep-b"].conn
	verifAssert(vRoute(gme, "", false) == dConn, "C15: RPC whose context names no MultiEndpoint is not routed via the default MultiEndpoint")
	verifAssert(vRoute(gme, dName, true) == dConn, "C15: RPC naming the default MultiEndpoint not routed via it")
	verifAssert(vRoute(gme, oName, true) == oConn, "C15: RPC naming a MultiEndpoint not routed via it")
	verifAssert(vRoute(gme, "nosuch", true) == dConn, "C15: RPC naming an unknown MultiEndpoint is not routed via the default MultiEndpoint")
	verifReach("end")
	verifObserve("conns", uint64(vNConns))
}
