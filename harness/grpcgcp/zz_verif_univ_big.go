//go:build verif && go1.21 && verifbig

package grpcgcp

// thorough universe
const (
	vM = 3 // pre-existing connection identities
	vF = 2 // fresh connections the factory can hand out during the call
	vR = 4 // slots (subConnRef objects)
	vK = 3 // affinity keys
)
