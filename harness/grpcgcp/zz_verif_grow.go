//go:build verif && go1.21

package grpcgcp

import (
	"sync"

	"google.golang.org/grpc/balancer"
)

// Pattern P3 for C03: picks run concurrently with balancer callbacks and with each other.  All
// shared state is accessed under gb.mu, so a concurrent execution is equivalent to one in which
// the other goroutines' critical sections run between this call's critical sections: whenever the
// pick re-acquires gb.mu after having released it, the balancer state becomes an arbitrary Inv_gb
// state again (same objects, same configuration, pool within maxSize).
var (
	verifGrowW      *verifWorld
	verifGrowArmed  bool
	verifGrowBudget int
	verifGrowLocks  int
	verifGrowLockCnt = map[sync.Locker]int{}
)

// verifOnLock is called by the executor before a Lock on a mutex this call has locked before.
func verifOnLock() {
	if verifGmeArmed {
		verifOnLockGme()
		return
	}
	if verifDoneArmed {
		verifOnLockDone()
		return
	}
	if verifRRArmed {
		verifOnLockRR()
		return
	}
	if !verifGrowArmed || verifGrowBudget == 0 {
		return
	}
	verifGrowBudget--
	w := verifGrowW
	w.fill("@")
	verifAssume(len(w.gb.scRefs) <= int(w.gb.cfg.ChannelPool.MaxSize))
	verifAssume(w.cc.published)
	verifGrowHooked = true
	for j := 0; j < vR; j++ {
		verifGrowStreams[j] = w.refs[j].streamsCnt
	}
}

// state at the interference point: what the other goroutines left behind
var (
	verifGrowHooked  bool
	verifGrowStreams [vR]int32
)

// verifLock replaces X.mu.Lock() in native replays (rewrite in replay.go): the interference runs
// inline at exactly the lock acquisition the executor interfered at.
func verifLock(mu sync.Locker) {
	if verifDoneArmed && mu == sync.Locker(&verifDoneW.gb.mu) {
		verifOnLock()
	}
	if verifGrowArmed {
		// like the executor: the hook runs before every re-acquisition of a mutex this call has
		// locked before (the balancer's or the picker's)
		verifGrowLockCnt[mu]++
		if verifGrowLockCnt[mu] >= 2 {
			verifOnLock()
		}
	}
	mu.Lock()
}

// verifRLock replaces X.mu.RLock() in native replays.
func verifRLock(mu *sync.RWMutex) {
	if verifGmeArmed && mu == &verifGme.mu {
		verifGmeLocks++
		if verifGmeLocks >= 2 {
			verifOnLock()
		}
	}
	if verifRRArmed && mu == &verifRRWorld.gb.mu {
		verifRRRLocks++
		if verifRRRLocks >= 2 {
			verifOnLock()
		}
	}
	mu.RLock()
}

// C03(d): the number of pool channels never exceeds maxSize (minSize <= maxSize).
func VerifH_grow() {
	w := verifMkWorld()
	gb := w.gb
	cp := gb.cfg.ChannelPool
	verifAssume(cp.MinSize <= cp.MaxSize)
	verifAssume(len(gb.scRefs) <= int(cp.MaxSize))
	verifAssume(w.cc.published && gb.picker == balancer.Picker(w.pk) && len(w.pk.scRefs) > 0)
	verifGrowW = w
	verifGrowLocks = 0
	verifGrowLockCnt = map[sync.Locker]int{}
	verifGrowBudget = verifCase("interference")
	ctx := &verifCtx{}
	verifResetLocks()
	verifGrowArmed = true
	verifGrowHooked = false
	res, perr := w.pk.Pick(balancer.PickInfo{FullMethodName: "/plain", Ctx: ctx})
	verifGrowArmed = false
	verifReach("after")
	verifAssert(verifLocksFree(), "C06: Pick left a lock held (another pick had grown the pool in between)")
	verifAssert(len(gb.scRefs) <= int(cp.MaxSize), "C03: pool above maxSize")
	if perr == nil && verifGrowHooked {
		// The call was placed although the pick gave other goroutines room in between (it released a
		// lock it had held and took it again): the channel must be least loaded with respect to what
		// they left behind, i.e. choosing the channel and charging the stream to it must be atomic
		// with respect to other picks on this picker.
		min := int32(1 << 30)
		for j := 0; j < vR; j++ {
			if verifInPicker(w.pk, w.refs[j]) && verifGrowStreams[j] < min {
				min = verifGrowStreams[j]
			}
		}
		for j := 0; j < vR; j++ {
			if w.refs[j].subConn == res.SubConn && verifInPicker(w.pk, w.refs[j]) {
				verifAssert(verifGrowStreams[j] == min, "C02: call charged to a channel chosen before other calls were charged (choosing the least-loaded channel and charging the stream are not atomic)")
			}
		}
	}
	verifObserve("poolSize", uint64(len(gb.scRefs)))
}
