//go:build verif && go1.21

package grpcgcp

import (
	"encoding/json"

	"google.golang.org/protobuf/proto"

	pb "github.com/GoogleCloudPlatform/grpc-gcp-go/grpcgcp/grpc_gcp"
)

// C17, parser clause.  protojson.Unmarshal is reflection-driven library code outside the executor,
// so the claim is about ParseConfig's own glue, over a table of concrete documents:
//   * the symbolic run replaces protojson.Unmarshal (and UnmarshalOptions.Unmarshal) by
//     verifPJUnmarshal below, a summary that knows, for every table document, whether a conforming
//     proto3-JSON parser accepts it and what it yields;
//   * the native run uses the real protojson: the witness replay compares every observed value, so
//     the table itself is validated against the real parser on every check;
//   * the obligations: ParseConfig accepts exactly the documents the parser accepts (no error
//     swallowed or invented, unknown fields not silently discarded) and returns a *GCPBalancerConfig
//     holding exactly what the document says (nothing added, nothing dropped).

const vDocs = 14

// verifDocText is the table of documents.
func verifDocText(i int) string {
	switch i {
	case 0:
		return `{}`
	case 1:
		return `{"channelPool":{"maxSize":3,"minSize":2,"maxConcurrentStreamsLowWatermark":7}}`
	case 2:
		return `{"channelPool":{"maxSize":3},"method":[{"name":["/a","/b"],"affinity":{"command":"BIND","affinityKey":"k.p"}}]}`
	case 3:
		return `{`
	case 4:
		return `{"nope":1}`
	case 5:
		return `{"channelPool":{"maxSize":"x"}}`
	case 6:
		return ``
	case 7:
		return `{"channel_pool":{"max_size":5,"fallback_to_ready":true}}`
	case 8:
		return `{"channelPool":{"maxSize":3}} x`
	case 9:
		return `{"channelPool":{"bindPickStrategy":"ROUND_ROBIN","unresponsiveDetectionMs":500,"unresponsiveCalls":4,"idleTimeout":"9"}}`
	case 10:
		return `{"channelPool":{"maxSize":-1}}`
	case 11:
		return `{"method":[{"name":["/u"],"affinity":{"command":"UNBIND","affinityKey":"s"}},{"name":["/n"]}]}`
	case 12:
		return `{"channelPool":{"bindPickStrategy":"NO_SUCH"}}`
	case 13:
		return `[]`
	}
	return `{}`
}

// verifDocRejected: a conforming parser rejects the document (unknownOnly: only because of an
// unknown field, i.e. accepted when unknown fields are discarded).
func verifDocRejected(i int) (rejected, unknownOnly bool) {
	switch i {
	case 3, 5, 6, 8, 10, 12, 13:
		return true, false
	case 4:
		return true, true
	}
	return false, false
}

// verifDocFill writes what the document says into a message.
func verifDocFill(i int, api *pb.ApiConfig) {
	switch i {
	case 1:
		api.ChannelPool = &pb.ChannelPoolConfig{MaxSize: 3, MinSize: 2, MaxConcurrentStreamsLowWatermark: 7}
	case 2:
		api.ChannelPool = &pb.ChannelPoolConfig{MaxSize: 3}
		api.Method = []*pb.MethodConfig{{Name: []string{"/a", "/b"}, Affinity: &pb.AffinityConfig{Command: pb.AffinityConfig_BIND, AffinityKey: "k.p"}}}
	case 7:
		api.ChannelPool = &pb.ChannelPoolConfig{MaxSize: 5, FallbackToReady: true}
	case 9:
		api.ChannelPool = &pb.ChannelPoolConfig{BindPickStrategy: pb.ChannelPoolConfig_ROUND_ROBIN, UnresponsiveDetectionMs: 500, UnresponsiveCalls: 4, IdleTimeout: 9}
	case 11:
		api.Method = []*pb.MethodConfig{
			{Name: []string{"/u"}, Affinity: &pb.AffinityConfig{Command: pb.AffinityConfig_UNBIND, AffinityKey: "s"}},
			{Name: []string{"/n"}},
		}
	}
}

// ghost state of the run: which document the harness handed to ParseConfig
var verifPJ struct {
	doc int
}

// verifPJUnmarshal stands in for protojson.Unmarshal in the symbolic run.
func verifPJUnmarshal(j []byte, m proto.Message, allowPartial, discardUnknown bool) error {
	c, ok := m.(*GCPBalancerConfig)
	if !ok || c == nil || c.ApiConfig == nil {
		// the real parser would fill whatever message it is given; the harness checks the target below
		return nil
	}
	// like the real parser, start from a reset message (whatever the caller pre-populated is gone)
	c.ApiConfig.ChannelPool, c.ApiConfig.Method = nil, nil
	rej, unk := verifDocRejected(verifPJ.doc)
	if rej && !(unk && discardUnknown) {
		return verifErr{}
	}
	verifDocFill(verifPJ.doc, c.ApiConfig)
	return nil
}

func verifPoolEq(a, b *pb.ChannelPoolConfig) bool {
	if a == nil || b == nil {
		return a == nil && b == nil
	}
	return a.MaxSize == b.MaxSize && a.MinSize == b.MinSize && a.MaxConcurrentStreamsLowWatermark == b.MaxConcurrentStreamsLowWatermark &&
		a.IdleTimeout == b.IdleTimeout && a.FallbackToReady == b.FallbackToReady && a.UnresponsiveDetectionMs == b.UnresponsiveDetectionMs &&
		a.UnresponsiveCalls == b.UnresponsiveCalls && a.BindPickStrategy == b.BindPickStrategy
}

func verifMethodsEq(a, b []*pb.MethodConfig) bool {
	if len(a) != len(b) {
		return false
	}
	eq := true
	for i := 0; i < len(a) && i < 2; i++ {
		x, y := a[i], b[i]
		if len(x.Name) != len(y.Name) {
			eq = false
			continue
		}
		for k := 0; k < len(x.Name) && k < 2; k++ {
			if x.Name[k] != y.Name[k] {
				eq = false
			}
		}
		if (x.Affinity == nil) != (y.Affinity == nil) {
			eq = false
		} else if x.Affinity != nil && (x.Affinity.Command != y.Affinity.Command || x.Affinity.AffinityKey != y.Affinity.AffinityKey) {
			eq = false
		}
	}
	return eq
}

// One ParseConfig call on one table document (case flag doc).
func VerifH_parse() {
	i := verifCase("doc")
	verifAssume(i >= 0 && i < vDocs)
	text := verifDocText(i)
	j := []byte(text)
	verifPJ.doc = i
	rej, _ := verifDocRejected(i)
	want := &pb.ApiConfig{}
	verifDocFill(i, want)

	verifReach("before")
	lbc, err := (&gcpBalancerBuilder{}).ParseConfig(json.RawMessage(j))
	verifReach("after")

	verifAssert((err != nil) == rej, "C17: ParseConfig does not accept exactly the well-formed renderings of the configuration message")
	if err == nil {
		c, ok := lbc.(*GCPBalancerConfig)
		verifAssert(ok && c != nil && c.ApiConfig != nil, "C17: accepted document did not yield a GCPBalancerConfig with an ApiConfig")
		if ok && c != nil && c.ApiConfig != nil {
			verifAssert(verifPoolEq(c.ApiConfig.ChannelPool, want.ChannelPool), "C17: parsed channel pool differs from the document")
			verifAssert(verifMethodsEq(c.ApiConfig.Method, want.Method), "C17: parsed method table differs from the document")
			verifObserve("hasPool", verifB2U(c.ApiConfig.ChannelPool != nil))
			verifObserve("nMethods", uint64(len(c.ApiConfig.Method)))
		}
	}
	verifObserve("err", verifB2U(err != nil))
}
