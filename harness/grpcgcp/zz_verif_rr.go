//go:build verif && go1.21

package grpcgcp

import (
	"sync/atomic"

	"google.golang.org/grpc/balancer"
	"google.golang.org/grpc/connectivity"
)

var (
	verifRRWorld  *verifWorld
	verifRRCtx    *verifCtx
	verifRRTarget *subConnRef
	verifRRBudget int
	verifRRBlocks int
	verifRRArmed  bool
)

// verifOnBlock runs whenever the code under test blocks (select).  While the call is blocked the
// other goroutines run: the balancer state becomes an arbitrary Inv_gb state again and the call's
// context may end.  After the interference budget is used up the wait is assumed to end eventually
// (the channel becomes READY or the context ends) - the progress assumption on the environment.
func verifOnBlockRR() {
	if !verifRRArmed {
		return
	}
	w := verifRRWorld
	verifRRBlocks++
	if verifRRBudget > 0 {
		verifRRBudget--
		list := w.gb.scRefList
		w.fill("@")
		verifAssume(len(w.gb.scRefList) == len(list))
		for j := 0; j < vR; j++ {
			verifRRStreams[j] = w.refs[j].streamsCnt // what the other goroutines left behind
		}
		if verifBool("ctxEnds@") {
			if !verifRRCtxClosed {
				close(verifRRCtx.done)
				verifRRCtxClosed = true
			}
		}
		return
	}
	verifFairSelect(true)
	verifAssume(verifOr(w.ready(verifRRTarget), verifRRCtxClosed))
}

var verifRRCtxClosed bool
var verifRRStreams [vR]int32 // stream counters after the last interference (before the call: at the call)

// One round-robin BIND pick from an arbitrary Inv_gb state, possibly waiting for its channel.
func VerifH_rr() {
	w := verifMkWorld()
	gb := w.gb
	// tickets are drawn by picks on any goroutine, which hold gb.mu at most in read mode: the counter
	// is only ever updated atomically (a plain write under the shared lock lets two picks draw the
	// same ticket)
	verifGuardedBy(&gb.rrRefId, &gb.mu, "gcpBalancer.rrRefId (the round-robin ticket counter; non-atomic write)")
	verifAssume(gb.picker == balancer.Picker(w.pk) || verifBool("stale"))
	verifAssume(len(w.pk.scRefs) > 0) // an empty picker tells the call to wait before any strategy is looked at
	ctx := &verifCtx{gcp: &gcpContext{reqMsg: w.mkMsg("req"), replyMsg: w.mkMsg("reply")}, hasGcp: verifBool("hasGcpCtx"), done: make(chan struct{})}
	verifRRCtxClosed = false
	if verifBool("ctxAlreadyDone") {
		close(ctx.done)
		verifRRCtxClosed = true
	}
	pre := w.snap()
	n := len(gb.scRefList)
	want := gb.scRefList[(pre.rr+1)%uint32(n)] // the channel whose turn it is
	readyAtCall := w.ready(want)
	verifRRWorld, verifRRCtx, verifRRTarget = w, ctx, want
	verifRRBudget = verifCase("interference")
	verifRRBlocks = 0
	verifRRGrew, verifRRRLocks = false, 0
	verifResetLocks()
	for j := 0; j < vR; j++ {
		verifRRStreams[j] = pre.streams[j]
	}
	verifRRArmed = true
	verifReach("before")
	res, err := w.pk.Pick(balancer.PickInfo{FullMethodName: "/bind", Ctx: ctx})
	verifRRArmed = false
	verifFairSelect(false)
	verifReach("after")
	verifAssert(verifLocksFree(), "C06,C09: round-robin pick left a lock held")
	verifAssert(err == nil, "C09: round-robin BIND pick failed")
	verifAssert(res.SubConn == want.subConn, "C09: round-robin BIND not handed the next channel in creation order")
	verifAssert(verifImplies(verifRRBlocks == 0, uint32(gb.rrRefId) == pre.rr+1), "C09: round-robin cursor not advanced by exactly one")
	verifAssert(verifOr(w.ready(want), verifRRCtxClosed), "C09: round-robin BIND returned although its channel is not READY and its context has not ended")
	verifAssert(verifImplies(readyAtCall, verifRRBlocks == 0), "C06,C09: round-robin BIND waited although its channel was READY")
	if verifRRBlocks > 0 {
		verifReach("waited")
	}
	// exact stream accounting also here (C02): a placed call is charged once to its channel - whether
	// or not it had to wait, and also when it stopped waiting because its context ended (its completion
	// callback will un-charge it).  Counted against what the other goroutines left behind at the last
	// interference.
	for j := 0; j < vR; j++ {
		d := w.refs[j].streamsCnt - verifRRStreams[j]
		if w.refs[j] == want {
			verifAssert(d == 1, "C02,C09: round-robin BIND did not add exactly one stream to its channel")
		} else {
			verifAssert(d == 0, "C02,C09: round-robin BIND changed the stream count of another channel")
		}
	}
	if verifRRBlocks == 0 {
		verifAssert(w.cc.created == pre.created && w.cc.removedCnt == pre.removed, "C03: round-robin pick changed the pool")
	}
	verifObserve("cursor", uint64(uint32(gb.rrRefId)))
	verifObserve("slot", uint64(w.slotIdx(want)))
}

// Window statement of C09: n*k consecutive round-robin BIND picks over n READY channels put
// exactly k on each, whatever the load on the channels and wherever the cursor stands.
func VerifH_rrwin() {
	w := verifMkWorld()
	gb := w.gb
	verifGuardedBy(&gb.rrRefId, &gb.mu, "gcpBalancer.rrRefId (the round-robin ticket counter; non-atomic write)")
	n := len(gb.scRefList)
	verifAssume(n >= 1)
	for j := 0; j < vR; j++ {
		if j < n {
			verifAssume(w.ready(w.refs[j])) // no waiting in this harness
		}
	}
	verifAssume(len(w.pk.scRefs) > 0)
	k := verifCase("k")
	verifAssume(k >= 1 && k <= 2)
	rr0 := uint32(gb.rrRefId)
	verifAssume(uint64(rr0)+uint64(n*k)+1 < 1<<32 || rr0 == ^uint32(0)) // no wrap inside the window (it wraps once, by design, from its initial value)
	ctx := &verifCtx{hasGcp: true, gcp: &gcpContext{}, done: make(chan struct{})}
	var cnt [vR]int
	var pre [vR]int32
	for j := 0; j < vR; j++ {
		pre[j] = w.refs[j].streamsCnt
	}
	for i := 0; i < vR*2; i++ {
		if i < n*k {
			res, err := w.pk.Pick(balancer.PickInfo{FullMethodName: "/bind", Ctx: ctx})
			verifAssert(err == nil, "C09: round-robin BIND pick failed")
			for j := 0; j < vR; j++ {
				if j < n && res.SubConn == w.refs[j].subConn {
					cnt[j]++
				}
			}
		}
	}
	verifReach("window done")
	for j := 0; j < vR; j++ {
		if j < n {
			verifAssert(cnt[j] == k, "C09: n*k consecutive round-robin BIND calls did not put exactly k on each channel")
			verifAssert(w.refs[j].streamsCnt == pre[j]+int32(k), "C02,C09: stream counts after the round-robin window")
		}
	}
	verifAssert(gb.scStates != nil && connectivity.Ready == 2, "sanity")
	verifObserve("cursor", uint64(uint32(gb.rrRefId)))
}

// Native replay of runs made with the atomicHavoc flag: an atomic load in the code under test
// observes the value the solver chose for it - other goroutines advanced the cell meanwhile (the
// rewrite of atomic.Load* to these functions is applied to the replay build only).
func verifAtomicLoadU32(p *uint32) uint32 {
	if verifFlag("atomicHavoc") {
		return verifU32("atomicLoad@")
	}
	return atomic.LoadUint32(p)
}

func verifAtomicLoadI32(p *int32) int32 {
	if verifFlag("atomicHavoc") {
		return verifI32("atomicLoad@")
	}
	return atomic.LoadInt32(p)
}

// Between two acquisitions of gb.mu inside one round-robin pick (the snapshot of the channel list and
// the wait), other picks may have grown the pool: the channel list gets one more channel.  (Once per
// pick; the list a pick works on is the snapshot it took.)
var (
	verifRRGrew   bool
	verifRRRLocks int
)

func verifOnLockRR() {
	if verifRRGrew || !verifBool("poolGrewMeanwhile") {
		return
	}
	verifRRGrew = true
	w := verifRRWorld
	for j := 0; j < vR; j++ {
		if !w.listed(w.refs[j]) {
			w.gb.scRefList = append(w.gb.scRefList, w.refs[j])
			return
		}
	}
}
