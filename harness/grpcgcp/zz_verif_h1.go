//go:build verif && go1.21

package grpcgcp

import "google.golang.org/grpc/connectivity"

// Step lemma for the aggregate counters: from counters consistent with an
// arbitrary multiset of states, one transition keeps them consistent and the
// returned aggregate is the evaluation of the new counters.
func VerifH_cnt() {
	nr, nc, nt := verifU64("nr"), verifU64("nc"), verifU64("nt")
	cse := &connectivityStateEvaluator{numReady: nr, numConnecting: nc, numTransientFailure: nt}
	old := connectivity.State(verifInt("old"))
	nw := connectivity.State(verifInt("new"))
	verifAssume(old >= 0 && old <= 4 && nw >= 0 && nw <= 4)
	// the connection being moved is counted in its old state
	verifAssume(old != connectivity.Ready || nr >= 1)
	verifAssume(old != connectivity.Connecting || nc >= 1)
	verifAssume(old != connectivity.TransientFailure || nt >= 1)
	// counters do not exceed a sane pool size (no wrap on increment)
	verifAssume(nr < 1<<32 && nc < 1<<32 && nt < 1<<32)
	got := cse.recordTransition(old, nw)
	d := func(s, which connectivity.State) uint64 {
		if s == which {
			return 1
		}
		return 0
	}
	verifAssert(cse.numReady == nr-d(old, connectivity.Ready)+d(nw, connectivity.Ready), "numReady")
	verifAssert(cse.numConnecting == nc-d(old, connectivity.Connecting)+d(nw, connectivity.Connecting), "numConnecting")
	verifAssert(cse.numTransientFailure == nt-d(old, connectivity.TransientFailure)+d(nw, connectivity.TransientFailure), "numTF")
	want := connectivity.TransientFailure
	if cse.numReady > 0 {
		want = connectivity.Ready
	} else if cse.numConnecting > 0 {
		want = connectivity.Connecting
	}
	verifAssert(got == want, "aggregate")
	verifReach("end")
}
