//go:build verif && go1.21

package grpcgcp

import (
	"google.golang.org/grpc/resolver"
	"time"

	"google.golang.org/grpc/balancer"

	pb "github.com/GoogleCloudPlatform/grpc-gcp-go/grpcgcp/grpc_gcp"
)

// Pattern P2: a successful Pick; then any history (the whole balancer state becomes an arbitrary
// Inv_gb state again, the clock advances); then the call's completion callback with any outcome.
func VerifH_done() {
	w := verifMkWorld()
	gb, cc := w.gb, w.cc
	cp := gb.cfg.ChannelPool
	c := w.mkCall()
	c.ctx.dl, c.ctx.hasDl = verifTime("deadline"), verifBool("hasDeadline")
	verifAssume(!c.ctx.dl.Before(time.Unix(0, 0)))
	w.pickKnown(c)
	pre0 := w.snap()
	started := verifClock
	res, err := c.p.Pick(balancer.PickInfo{FullMethodName: c.method, Ctx: c.ctx})
	verifAssume(err == nil) // only placed calls complete
	post0 := w.snap()
	placed, _ := w.placedOn(pre0, post0)
	on := w.refs[verifCase("on")] // case split: the channel the call was placed on
	verifAssume(placed == on)     // exactly one channel is charged: established by the pick harness (C02)
	done := verifNarrow(res.Done)

	// ---- anything may happen between placement and completion ----
	verifClock = verifTime("now2")
	verifAssume(!verifClock.Before(started) && verifClock.Before(time.Unix(0, 1<<61)))
	if verifFlag("havoc") {
		w.fill("@")
	} else {
		for j := 0; j < vR; j++ {
			verifAssume(!w.refs[j].lastResp.After(verifClock))
		}
	}
	verifAssume(on.streamsCnt >= 1) // the call in flight is counted (I-strm)
	now := verifClock

	kind := verifInt("errKind")
	verifAssume(kind >= 0 && kind <= 3)
	derr := verifMkErr(kind)
	pre := w.snap()
	onIdx := w.slotIdx(on)
	lastResp0, deCalls0, refreshCnt0, refreshing0 := on.lastResp, on.deCalls, on.refreshCnt, on.refreshing
	onSC := on.subConn
	_, onInPool := gb.scRefs[onSC]

	// stated bound of C07: the detection window does not overflow 32 bits
	verifAssume(refreshCnt0 < 32 && (uint64(cp.UnresponsiveDetectionMs)<<refreshCnt0) < 1<<32)
	verifAssume(deCalls0 < 1<<31)

	enabled := cp.UnresponsiveCalls > 0 && cp.UnresponsiveDetectionMs > 0
	clientDeadline := kind == 1 && c.ctx.hasDl && !c.ctx.dl.After(now)
	countable := enabled && clientDeadline && !started.Before(lastResp0)
	window := time.Millisecond * time.Duration(uint32(1<<refreshCnt0)*cp.UnresponsiveDetectionMs)
	trigger := countable && deCalls0+1 >= cp.UnresponsiveCalls && lastResp0.Before(now.Add(-window)) && !refreshing0
	canCreate := !cc.failNew && pre.nAddrs > 0

	isBind := c.hasCfg && c.cmd == pb.AffinityConfig_BIND
	isUnbind := c.hasCfg && c.cmd == pb.AffinityConfig_UNBIND
	verifReach("before done")
	done(balancer.DoneInfo{Err: derr})
	verifReach("after done")
	post := w.snap()
	verifPickersUnchanged(pre, post)
	verifAssert(verifLocksFree(), "C06: completion callback left a lock held")

	// C02(c): every completion removes exactly one stream from the channel the call was placed on
	for j := 0; j < vR; j++ {
		// (plus what other goroutines did to the counter while the callback ran: interference at
		// compare-and-swap operations, see verifCAS32)
		want := pre.streams[j] + verifCasDelta(&w.refs[j].streamsCnt)
		if j == onIdx {
			want--
		}
		verifAssert(post.streams[j] == want, "C02: completion did not remove exactly one stream from the channel the call was placed on")
	}

	// C01(3)/(4): bind and unbind effects
	for x := 0; x < vK; x++ {
		k := w.keys[x]
		inReply := false
		if c.reply != nil {
			for i := 0; i < 2; i++ {
				if i < len(c.reply.Keys) && c.reply.Keys[i] == k {
					inReply = true
				}
			}
		}
		switch {
		case isBind && kind == 0 && c.ctx.hasGcp && inReply && !pre.bound[x] && onInPool:
			verifReach("key bound")
			verifAssert(post.bound[x] && post.boundSC[x] == onSC, "C01: successful BIND did not bind the key to the channel the call was placed on")
		case isUnbind && kind == 0 && c.unbinds && c.unbindKey == k:
			verifReach("key unbound")
			verifAssert(!post.bound[x], "C01,C02: successful UNBIND did not remove the binding (the key must be routed like an unknown key afterwards)")
		default:
			verifAssert(post.bound[x] == pre.bound[x] && (!pre.bound[x] || post.boundSC[x] == pre.boundSC[x]), "C01: completion changed a binding it must not change (failed call, already bound key, or other key)")
		}
		verifAssert(post.hasFb[x] == pre.hasFb[x] && (!pre.hasFb[x] || post.fb[x] == pre.fb[x]), "C08: completion changed a stand-in")
	}

	// C07: the unresponsive-connection detector
	refreshed := post.created == pre.created+1
	verifAssert(post.created == pre.created || refreshed, "C07: completion created more than one connection")
	verifAssert(verifImplies(refreshed, trigger), "C07: connection refreshed although the rule does not hold")
	verifAssert(verifImplies(trigger && canCreate, refreshed), "C07: rule holds but the connection was not refreshed")
	verifAssert(verifImplies(!enabled, !refreshed && on.lastResp == lastResp0 && on.deCalls == deCalls0 && on.refreshCnt == refreshCnt0 && on.refreshing == refreshing0), "C07: disabled detector touched the channel")
	verifAssert(verifImplies(enabled && !clientDeadline, on.lastResp == now && on.deCalls == 0 && on.refreshCnt == 0), "C07: a completion that is not a client-side deadline does not count as a response")
	verifAssert(verifImplies(enabled && clientDeadline && !countable, on.lastResp == lastResp0 && on.deCalls == deCalls0 && on.refreshCnt == refreshCnt0), "C07: deadline of a call started before the last response changed the detector")
	verifAssert(verifImplies(countable, on.deCalls == deCalls0+1 && on.lastResp == lastResp0 && on.refreshCnt == refreshCnt0), "C07: countable deadline not counted exactly once")
	if refreshed {
		verifReach("refresh started")
		nsc := balancer.SubConn(cc.fresh[cc.nextFresh-1])
		rs, isRepl := gb.refreshingScRefs[nsc]
		verifAssert(isRepl && rs == on && on.refreshing, "C07: replacement connection not recorded for the channel")
		verifAssert(on.subConn == onSC, "C07: old connection does not keep serving until the replacement is READY")
		_, in := gb.scRefs[nsc]
		verifAssert(!in, "C03,C07: replacement connection added to the pool before it is READY")
		verifAssert(cc.fresh[cc.nextFresh-1].connects == 1, "C07: replacement connection not asked to connect")
		verifAssert(cc.fresh[cc.nextFresh-1].addrTag == pre.addrTagGb, "C20: replacement connection does not use the most recently resolved address list")
	} else {
		verifAssert(verifImplies(!refreshing0, !on.refreshing), "C07: a failed attempt to create the replacement leaves the channel marked as refreshing (no later refresh possible)")
	}
	// nothing else moves: pool, pickers, published state, channel list
	verifAssert(post.removed == pre.removed && post.pubCount == pre.pubCount && post.poolSize == pre.poolSize && post.listLen == pre.listLen && post.picker == pre.picker && post.gbstate == pre.gbstate, "C03,C04: completion changed the pool or the published state")
	w.assertInv()
	verifObserve("created", uint64(cc.created))
	verifObserve("streams", uint64(on.streamsCnt))
	verifObserve("deCalls", uint64(on.deCalls))
}

// Independent (mathematical) form of the detection window: ms * 2^k milliseconds, against the
// code's uint32(1<<k)*ms expression - within the stated bound ms*2^k < 2^32.
func VerifH_window() {
	w := verifMkWorld()
	cp := w.gb.cfg.ChannelPool
	ref := w.refs[0]
	k := ref.refreshCnt
	verifAssume(k < 32 && (uint64(cp.UnresponsiveDetectionMs)<<k) < 1<<32)
	got := w.pk.unresponsiveWindow(ref)
	want := time.Duration((uint64(cp.UnresponsiveDetectionMs)<<k)*1000000) * time.Nanosecond
	verifReach("after")
	verifAssert(got == want, "C07: detection window is not unresponsive_detection_ms x 2^k")
	verifObserve("window", uint64(got))
}

// Pattern P3 for C07/C03 "no refresh of the channel is already in progress": completions run
// concurrently with each other and with balancer callbacks.  refresh() tests ref.refreshing, then
// takes gb.mu: at that acquisition anything another goroutine does under the lock may already
// have happened (arbitrary Inv_gb state, same objects) - in particular another completion on the
// same channel may have started the refresh.
var (
	verifDoneArmed         bool
	verifDoneHooked        bool
	verifDoneW             *verifWorld
	verifDoneOn            *subConnRef
	verifDoneRefAtLock     bool
	verifDoneCreatedAtLock int
	verifDoneBudget        int // interference points left (one per acquisition of gb.mu)
)

func verifOnLockDone() {
	if verifDoneBudget == 0 {
		return
	}
	verifDoneBudget--
	verifDoneHooked = true
	w := verifDoneW
	if verifBool("resolverUpdate@") {
		// a resolver update arrived meanwhile: every connection the balancer knows at that moment
		// got the new list (Inv_gb, assumed by fill)
		gb := w.gb
		na := verifInt("gbaddrs@")
		verifAssume(na >= 0 && na <= 2)
		gb.addrs = []resolver.Address{{Addr: verifChoose("gbaddr0@", "x", "y", "z")}, {Addr: "w"}}[:na]
	}
	w.fill("@")
	verifDoneRefAtLock = verifDoneOn.refreshing
	verifDoneCreatedAtLock = w.cc.created
}

func VerifH_donep3() {
	w := verifMkWorld()
	cc := w.cc
	c := w.mkCall()
	verifAssume(!c.hasCfg) // a plain call: the only lock the completion can take is the one in refresh()
	c.ctx.dl, c.ctx.hasDl = verifTime("deadline"), verifBool("hasDeadline")
	verifAssume(!c.ctx.dl.Before(time.Unix(0, 0)))
	pre0 := w.snap()
	res, err := c.p.Pick(balancer.PickInfo{FullMethodName: c.method, Ctx: c.ctx})
	verifAssume(err == nil)
	post0 := w.snap()
	placed, _ := w.placedOn(pre0, post0)
	on := w.refs[verifCase("on")]
	verifAssume(placed == on)
	done := verifNarrow(res.Done)
	started := verifClock
	verifClock = verifTime("now2")
	verifAssume(!verifClock.Before(started) && verifClock.Before(time.Unix(0, 1<<61)))
	w.fill("@")
	verifAssume(on.streamsCnt >= 1)
	verifAssume(on.refreshCnt < 32 && on.deCalls < 1<<31)
	kind := verifInt("errKind")
	verifAssume(kind >= 0 && kind <= 3)
	derr := verifMkErr(kind)

	verifDoneW, verifDoneOn, verifDoneHooked, verifDoneRefAtLock, verifDoneCreatedAtLock = w, on, false, false, 0
	verifDoneBudget = 2
	verifResetLocks()
	verifLockHookFrom(1)
	verifDoneArmed = true
	done(balancer.DoneInfo{Err: derr})
	verifDoneArmed = false
	verifLockHookFrom(2)
	verifReach("after done")
	if verifDoneHooked {
		verifReach("interference at the lock of refresh")
		verifAssert(verifImplies(verifDoneRefAtLock, cc.created == verifDoneCreatedAtLock), "C07,C03: a completion started a second refresh of a channel whose refresh another goroutine had started before this one got the lock")
		verifAssert(cc.created <= verifDoneCreatedAtLock+1, "C07,C03: completion created more than one connection")
	}
	verifAssert(verifLocksFree(), "C06: completion callback left a lock held")
	// whatever happened meanwhile (e.g. a resolver update between two critical sections of the
	// refresh): connections the balancer knows use the most recently resolved address list
	gb := w.gb
	for i := 0; i < vM+vF; i++ {
		var sc *verifSC
		if i < vM {
			sc = w.scs[i]
		} else {
			sc = cc.fresh[i-vM]
		}
		_, inPool := gb.scRefs[w.conn(i)]
		_, isRepl := gb.refreshingScRefs[w.conn(i)]
		verifAssert(verifImplies(inPool || isRepl, sc.addrTag == verifAddrTag(gb.addrs)), "C20: a connection of the pool (or the replacement of a refresh in flight) does not use the most recently resolved address list")
	}
	verifObserve("created", uint64(cc.created))
}
