//go:build verif && go1.21

package grpcgcp

import (
	"google.golang.org/grpc/balancer"
	"google.golang.org/grpc/connectivity"
	"google.golang.org/grpc/resolver"

	pb "github.com/GoogleCloudPlatform/grpc-gcp-go/grpcgcp/grpc_gcp"
	"github.com/GoogleCloudPlatform/grpc-gcp-go/grpcgcp/multiendpoint"
)

// C10, pattern P4: pairs of operations that gRPC / applications run concurrently, executed from
// the same Inv_gb pre-state with every access recorded; the solver decides which conflicting
// accesses have no common lock.

func (w *verifWorld) pickOp(tag string) func() { return w.pickOpOn(tag, w.pk) }

func (w *verifWorld) pickOpOn(tag string, p *gcpPicker) func() {
	mi := verifInt(tag + "_method")
	verifAssume(mi >= 0 && mi < vMethods)
	method := []string{"/plain", "/bind", "/bound", "/unbind"}[mi]
	ctx := &verifCtx{gcp: &gcpContext{reqMsg: w.mkMsg(tag + "_req"), replyMsg: w.mkMsg(tag + "_reply")}, hasGcp: true, done: make(chan struct{})}
	return func() { p.Pick(balancer.PickInfo{FullMethodName: method, Ctx: ctx}) }
}

func (w *verifWorld) uscOp() func() {
	sc := verifChoose("usc_scv", w.scList()...)
	s := connectivity.State(verifInt("usc_state"))
	verifAssume(s >= 0 && s <= 4)
	return func() { w.gb.UpdateSubConnState(sc, balancer.SubConnState{ConnectivityState: s}) }
}

func (w *verifWorld) doneOp(tag string) func() {
	// a completion callback of an earlier successful pick
	ctx := &verifCtx{gcp: &gcpContext{reqMsg: w.mkMsg(tag + "_req"), replyMsg: w.mkMsg(tag + "_reply")}, hasGcp: true, hasDl: true, dl: verifClock}
	mi := verifInt(tag + "_method")
	verifAssume(mi >= 0 && mi < vMethods)
	res, err := w.pk.Pick(balancer.PickInfo{FullMethodName: []string{"/plain", "/bind", "/bound", "/unbind"}[mi], Ctx: ctx})
	verifAssume(err == nil)
	kind := verifInt(tag + "_errKind")
	verifAssume(kind >= 0 && kind <= 3)
	derr := verifMkErr(kind)
	return func() { res.Done(balancer.DoneInfo{Err: derr}) }
}

func VerifH_race() {
	w := verifMkWorld()
	verifAssume(w.cc.published && len(w.pk.scRefs) > 0)
	var a, b func()
	switch verifCase("pair") {
	case 0: // a pick and a state report
		a, b = w.pickOp("p1"), w.uscOp()
	case 1: // two picks on the same picker
		a, b = w.pickOp("p1"), w.pickOp("p2")
	case 2: // a completion and a state report
		a, b = w.doneOp("d1"), w.uscOp()
	case 3: // two completions
		a, b = w.doneOp("d1"), w.doneOp("d2")
	case 4: // a completion and a pick
		a, b = w.doneOp("d1"), w.pickOp("p2")
	case 6: // two picks on two picker generations (an RPC that loaded the old picker, another on the new one)
		verifAssume(len(w.other.scRefs) > 0)
		a, b = w.pickOp("p1"), w.pickOpOn("p2", w.other)
	case 7: // a round-robin BIND pick (reads the channel list) and a pick that may grow the pool (appends to it)
		verifAssume(verifFlag("rr"))
		n := len(w.gb.scRefList)
		verifAssume(n >= 1)
		verifAssume(w.ready(w.gb.scRefList[uint32(w.gb.rrRefId+1)%uint32(n)])) // no waiting
		ctx := &verifCtx{hasGcp: true, gcp: &gcpContext{}, done: make(chan struct{})}
		a = func() { w.pk.Pick(balancer.PickInfo{FullMethodName: "/bind", Ctx: ctx}) }
		ctx2 := &verifCtx{done: make(chan struct{})}
		b = func() { w.other.Pick(balancer.PickInfo{FullMethodName: "/plain", Ctx: ctx2}) }
		verifAssume(len(w.other.scRefs) > 0)
	case 10: // two round-robin BIND picks at once (they draw tickets holding gb.mu in read mode at most)
		verifAssume(verifFlag("rr"))
		n := len(w.gb.scRefList)
		verifAssume(n >= 1)
		for j := 0; j < vR; j++ {
			if j < n {
				verifAssume(w.ready(w.gb.scRefList[j])) // no waiting
			}
		}
		verifAssume(len(w.other.scRefs) > 0)
		ctx := &verifCtx{hasGcp: true, gcp: &gcpContext{}, done: make(chan struct{})}
		a = func() { w.pk.Pick(balancer.PickInfo{FullMethodName: "/bind", Ctx: ctx}) }
		ctx2 := &verifCtx{hasGcp: true, gcp: &gcpContext{}, done: make(chan struct{})}
		b = func() { w.other.Pick(balancer.PickInfo{FullMethodName: "/bind", Ctx: ctx2}) }
	case 9: // a round-robin BIND pick that has to wait for its channel (its context ends) and a state report
		verifAssume(verifFlag("rr"))
		n := len(w.gb.scRefList)
		verifAssume(n >= 1)
		verifAssume(!w.ready(w.gb.scRefList[uint32(w.gb.rrRefId+1)%uint32(n)])) // the pick waits
		done := make(chan struct{})
		close(done) // the call's context has ended: the wait returns at its first select
		ctx := &verifCtx{hasGcp: true, gcp: &gcpContext{}, done: done}
		a = func() { w.pk.Pick(balancer.PickInfo{FullMethodName: "/bind", Ctx: ctx}) }
		b = w.uscOp()
	case 5, 8: // a pick (5) / a completion (8) and a later resolver update, which may carry a configuration again
		if verifCase("pair") == 5 {
			a = w.pickOp("p1")
		} else {
			a = w.doneOp("d1")
		}
		ccs := balancer.ClientConnState{ResolverState: resolver.State{Addresses: []resolver.Address{{Addr: "x"}}}}
		if verifBool("carriesConfig") {
			ccs.BalancerConfig = &GCPBalancerConfig{ApiConfig: &pb.ApiConfig{ChannelPool: &pb.ChannelPoolConfig{MaxSize: 3}, Method: []*pb.MethodConfig{{Name: []string{"/bind"}, Affinity: &pb.AffinityConfig{Command: pb.AffinityConfig_BIND, AffinityKey: "keys"}}}}}
		}
		b = func() { w.gb.UpdateClientConnState(ccs) }
	}
	verifReach("before")
	verifPar(a, b)
	verifReach("after")
}

// GCPMultiEndpoint: RPC routing, reconfiguration, monitor notifications, Close, GCPConfig.
func VerifH_racegme() {
	vReset2()
	opts := &GCPMultiEndpointOptions{
		MultiEndpoints: map[string]*multiendpoint.MultiEndpointOptions{"default": {Endpoints: []string{"ep-a", "ep-b"}}, "read": {Endpoints: []string{"ep-b"}}},
		Default:        "default",
		DialFunc:       vDial,
	}
	gme, err := NewGCPMultiEndpoint(opts)
	verifAssume(err == nil && gme != nil)
	upd := &GCPMultiEndpointOptions{
		MultiEndpoints: map[string]*multiendpoint.MultiEndpointOptions{"default": {Endpoints: []string{"ep-b", "ep-c"}}},
		Default:        "default",
	}
	rpc := func() { vRoute(gme, "read", true) }
	var a, b func()
	switch verifCase("pair") {
	case 0:
		a, b = rpc, func() { gme.UpdateMultiEndpoints(upd) }
	case 1:
		a, b = rpc, func() { gme.pools["ep-a"].notify(connectivity.Ready) }
	case 2:
		a, b = func() { gme.pools["ep-b"].notify(connectivity.Ready) }, func() { gme.UpdateMultiEndpoints(upd) }
	case 3:
		a, b = func() { gme.GCPConfig() }, func() { gme.UpdateMultiEndpoints(upd) }
	case 4:
		a, b = rpc, rpc
	case 5:
		a, b = func() { gme.Close() }, func() { gme.UpdateMultiEndpoints(upd) }
	case 6:
		a, b = func() { vRoute(gme, "nosuch", true) }, func() { gme.UpdateMultiEndpoints(upd) }
	case 7:
		a, b = func() { gme.Close() }, rpc
	}
	verifReach("before")
	verifPar(a, b)
	verifReach("after")
}
