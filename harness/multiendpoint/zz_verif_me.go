//go:build verif && go1.21

package multiendpoint

import "time"

// ---- virtual clock and timer registry behind the package's own injection points ----

type vTimer struct {
	f       func()
	d       time.Duration
	stopped bool
	fired   bool
	due     int64
	seq     int
	kind    int // step harness: 1 recovery timer, 2 delayed switch
}

func (t *vTimer) Reset(time.Duration) bool { return true }
func (t *vTimer) Stop() bool               { t.stopped = true; return true }

var (
	vTimers []*vTimer
	vNow    int64
)

func vInstall() {
	vNow = 1000
	vTimers = nil
	timeNow = func() time.Time { vNow++; return time.Unix(0, vNow) } // strictly increasing clock
	timeAfterFunc = func(d time.Duration, f func()) timerAlike {
		t := &vTimer{f: f, d: d, due: vNow + int64(d), seq: len(vTimers)}
		vTimers = append(vTimers, t)
		return t
	}
}

func (t *vTimer) live() bool { return !t.stopped && !t.fired }

const vE = 3 // endpoint universe

var vNames = [vE + 1]string{"A", "B", "C", "X"} // X is never listed

func vName(i int) string {
	switch i {
	case 0:
		return "A"
	case 1:
		return "B"
	case 2:
		return "C"
	}
	return "X"
}

// vList builds a duplicate-free endpoint list of length 0..3 over {A,B,C}.
func vList(tag string) []string {
	n := verifInt(tag + "_n")
	verifAssume(n >= 0 && n <= vE)
	l := []string{verifChoose(tag+"_0", "A", "B", "C"), verifChoose(tag+"_1", "A", "B", "C"), verifChoose(tag+"_2", "A", "B", "C")}
	verifAssume(l[0] != l[1] && l[0] != l[2] && l[1] != l[2])
	return l[:n]
}

// vListN: like vList with the length fixed by a case flag.
func vListN(tag string, n int) []string {
	verifAssume(n >= 0 && n <= vE)
	l := []string{verifChoose(tag+"_0", "A", "B", "C"), verifChoose(tag+"_1", "A", "B", "C"), verifChoose(tag+"_2", "A", "B", "C")}
	verifAssume(l[0] != l[1] && l[0] != l[2] && l[1] != l[2])
	return l[:n]
}

type vView struct { // index vE is a sentinel cell: never listed
	listed [vE + 1]bool
	status [vE + 1]status
	prio   [vE + 1]int
	cur    int // index of current in the universe, vE if not a universe name
}

func vLook(m *multiEndpoint) *vView {
	v := &vView{cur: vE}
	for i := 0; i < vE; i++ {
		e, ok := m.endpoints[vName(i)]
		v.listed[i] = ok
		if ok {
			v.status[i] = e.status
			v.prio[i] = e.priority
		}
		if m.current == vName(i) {
			v.cur = i
		}
	}
	return v
}

// topAvail returns the index of the highest-priority available endpoint (vE if none).
func (v *vView) topAvail() int {
	best := vE
	for i := 0; i < vE; i++ {
		if v.listed[i] && v.status[i] == available && (best == vE || v.prio[i] < v.prio[best]) {
			best = i
		}
	}
	return best
}

func (v *vView) first() int {
	best := vE
	for i := 0; i < vE; i++ {
		if v.listed[i] && (best == vE || v.prio[i] < v.prio[best]) {
			best = i
		}
	}
	return best
}

func vLiveTimers() int {
	n := 0
	for i := 0; i < len(vTimers); i++ {
		if vTimers[i].live() {
			n++
		}
	}
	return n
}

// K symbolic operations from the real constructor.
func VerifH_me() {
	vInstall()
	r := time.Duration(verifInt("recovery"))
	d := time.Duration(verifInt("delay"))
	verifAssume(r >= 0 && r < 1<<40 && d >= 0 && d < 1<<40)
	// by symmetry of endpoint names (the code only compares them) the initial list is a prefix of A,B,C
	init := []string{"A", "B", "C"}[:verifCase("n0")]
	mi, err := NewMultiEndpoint(&MultiEndpointOptions{Endpoints: init, RecoveryTimeout: r, SwitchingDelay: d})
	if len(init) == 0 {
		verifAssert(err != nil && mi == nil, "C13: empty initial endpoint list accepted")
		verifReach("empty list rejected")
		return
	}
	verifAssert(err == nil && mi != nil, "C13: valid initial endpoint list rejected")
	m := mi.(*multiEndpoint)
	verifAssert(m.Current() == init[0], "C13: current is not the first endpoint after construction")
	steps := verifCase("steps")
	for step := 0; step < 4; step++ {
		if step >= steps {
			break
		}
		sd := verifD(step)
		v0 := vLook(m)
		cur0 := m.current
		verifAssert(v0.cur < vE && v0.listed[v0.cur], "C13: current is not a listed endpoint")
		timers0 := len(vTimers)
		now0 := vNow
		op := verifInt("op" + sd)
		verifAssume(op >= 0 && op <= 2)
		var repE int
		var tm0 timerAlike
		var repAvail bool
		var list []string
		var serr error
		switch op {
		case 0:
			repName := verifChoose("ep"+sd, "A", "B", "C", "X")
			repE = vE
			for i := 0; i < vE; i++ {
				if repName == vName(i) {
					repE = i
				}
			}
			repAvail = verifBool("avail" + sd)
			if e, ok := m.endpoints[repName]; ok {
				tm0 = e.futureChange
			}
			m.SetEndpointAvailability(repName, repAvail)
		case 1:
			list = vList("list" + sd)
			serr = m.SetEndpoints(list)
		case 2:
			i := verifInt("timer" + sd)
			verifAssume(i >= 0 && i < len(vTimers))
			t := vTimers[i]
			verifAssume(t.live())
			for j := 0; j < len(vTimers); j++ {
				verifAssume(!vTimers[j].live() || vTimers[j].due >= t.due) // timers fire in due order; equal due times in any order
			}
			if vNow < t.due {
				vNow = t.due
			}
			t.fired = true
			t.f()
		}
		v1 := vLook(m)
		cur1 := m.Current()
		_ = cur1
		verifReach("after step " + sd)
		// ---- C13 ----
		verifAssert(v1.cur < vE && v1.listed[v1.cur], "C13: current is not a member of the most recently accepted endpoint list")
		top1 := v1.topAvail()
		if v1.cur < vE {
			verifAssert(!(v1.status[v1.cur] == unavailable && top1 < vE), "C13: current endpoint is unavailable while another endpoint is available")
		}
		if op == 1 && len(list) == 0 {
			verifAssert(serr != nil, "C13: empty endpoint list accepted")
			same := cur0 == m.current && timers0 == len(vTimers)
			for i := 0; i < vE; i++ {
				same = same && v0.listed[i] == v1.listed[i] && (!v0.listed[i] || (v0.status[i] == v1.status[i] && v0.prio[i] == v1.prio[i]))
			}
			verifAssert(same, "C13: rejected endpoint list changed the state")
		}
		if op == 1 && len(list) > 0 {
			verifAssert(serr == nil, "C13: valid endpoint list rejected")
			for i := 0; i < vE; i++ {
				in := false
				for j := 0; j < vE; j++ {
					if j < len(list) && list[j] == vName(i) {
						in = true
						verifAssert(v1.listed[i] && v1.prio[i] == j, "C13: endpoint priorities do not follow the new list")
					}
				}
				verifAssert(v1.listed[i] == in, "C13: endpoint set differs from the accepted list")
				if in && v0.listed[i] {
					verifAssert(v1.status[i] == v0.status[i], "C13: SetEndpoints changed the state of a kept endpoint")
				}
			}
		}
		stillListed := v0.cur < vE && v1.listed[v0.cur]
		if top1 == vE { // no endpoint available
			if stillListed {
				verifAssert(v1.cur == v0.cur, "C13: current changed although no endpoint is available and it is still listed")
			} else {
				verifAssert(v1.cur == v1.first(), "C13: current was removed with no endpoint available but is not the list's first endpoint")
			}
		}
		if d == 0 {
			// exact reference for the no-delay configuration
			want := v0.cur
			if stillListed && v1.status[v0.cur] == recovering && (top1 == vE || v1.prio[top1] > v1.prio[v0.cur]) {
				want = v0.cur
			} else if top1 < vE {
				want = top1
			} else if !stillListed {
				want = v1.first()
			}
			verifAssert(v1.cur == want, "C13: without switching delay current is not (recovering current | top available | unchanged)")
		}
		// ---- C14 ----
		if stillListed && v1.cur != v0.cur && v1.cur < vE {
			movedDown := v0.status[v0.cur] == available && v1.status[v0.cur] == available && v1.prio[v1.cur] > v1.prio[v0.cur]
			verifAssert(!movedDown, "C14: current moved from an available endpoint to a lower-priority one")
		}
		if d > 0 && op != 2 && stillListed && (v1.status[v0.cur] == available || v1.status[v0.cur] == recovering) && v0.status[v0.cur] != unavailable {
			verifAssert(v1.cur == v0.cur, "C14: with a switching delay current moved inside the call that made a better endpoint available")
		}
		if op == 0 && repE < vE && v0.listed[repE] {
			e := repE % vE
			switch {
			case !repAvail && v0.status[e] == available && r > 0:
				verifAssert(v1.status[e] == recovering, "C14: endpoint reported unavailable is not recovering")
				verifAssert(len(vTimers) == timers0+1 && vTimers[len(vTimers)-1].d == r && vTimers[len(vTimers)-1].due >= now0+int64(r) && vTimers[len(vTimers)-1].due <= vNow+int64(r), "C14: recovery timer not scheduled for the recovery timeout")
				if v0.cur == e && (top1 == vE || v1.prio[top1] > v1.prio[e]) {
					verifAssert(v1.cur == e, "C14: current did not stay on the recovering endpoint")
				}
			case !repAvail && v0.status[e] == available && r == 0:
				verifAssert(v1.status[e] == unavailable, "C14: endpoint reported unavailable without recovery timeout is not unavailable")
			case !repAvail && v0.status[e] != available:
				verifAssert(v1.status[e] == v0.status[e] && m.endpoints[vName(e)].futureChange == tm0, "C13,C14: repeated unavailable report changed the recovery window (an endpoint known to be unavailable must stay unavailable until reported available)")
			case repAvail:
				verifAssert(v1.status[e] == available, "C14: endpoint reported available is not available")
				if v0.status[e] == recovering {
					t, ok := tm0.(*vTimer)
					verifAssert(ok && t != nil && t.stopped, "C14: availability report inside the window did not cancel the recovery timer")
				}
			}
		}
		if op == 0 && (repE == vE || !v0.listed[repE]) {
			same := cur0 == m.current
			for i := 0; i < vE; i++ {
				same = same && v0.listed[i] == v1.listed[i] && (!v0.listed[i] || (v0.status[i] == v1.status[i] && v0.prio[i] == v1.prio[i]))
			}
			verifAssert(same, "C13: report for an unknown endpoint changed the state")
		}
	}
	// convergence: once all pending timers have fired, current is the top available endpoint
	if vLiveTimers() == 0 {
		v := vLook(m)
		if t := v.topAvail(); t < vE {
			verifReach("quiescent with an available endpoint")
			verifAssert(v.cur == t, "C14: at quiescence current is not the highest-priority available endpoint")
		}
	}
	verifObserve("cur", uint64(vLook(m).cur))
	verifObserve("timers", uint64(len(vTimers)))
}
