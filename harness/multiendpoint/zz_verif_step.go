//go:build verif && go1.21

package multiendpoint

import "time"

// Pattern P1 for multiEndpoint: an arbitrary state satisfying Inv_me (DESIGN.md section 5.2) over
// the endpoint universe {A,B,C}, with real timer closures registered through the package's own
// timeAfterFunc, then ONE operation, then the step obligations of C13/C14 and Inv_me again.

type vWorld struct {
	m      *multiEndpoint
	eps    [vE]*endpoint // endpoint objects of the universe names (in the map iff listed)
	orphan *endpoint     // an endpoint object that was removed from the list (its timer may be live)
	r, d   time.Duration
}

func vMkWorld() *vWorld {
	vInstall()
	w := &vWorld{}
	// case split on "no recovery timeout" / "no switching delay" (constants for the executor)
	if verifCase("rz") != 1 {
		w.r = time.Duration(verifInt("recovery"))
		verifAssume(w.r > 0 && w.r < 1<<40)
	}
	if verifCase("dz") != 1 {
		w.d = time.Duration(verifInt("delay"))
		verifAssume(w.d > 0 && w.d < 1<<40)
	}
	m := &multiEndpoint{recoveryTimeout: w.r, switchingDelay: w.d, endpoints: make(map[string]*endpoint)}
	w.m = m
	vNow = int64(verifInt("now"))
	verifAssume(vNow >= 1000 && vNow < 1<<50)
	n := 0
	for i := 0; i < vE; i++ {
		sd := verifD(i)
		e := &endpoint{id: vName(i), priority: verifInt("prio" + sd), status: status(verifInt("status" + sd)), lastChange: time.Unix(0, int64(verifInt("lastChange"+sd)))}
		w.eps[i] = e
		listed := verifBool("listed" + sd)
		verifAssume(e.status >= unavailable && e.status <= recovering)
		verifAssume(e.lastChange.UnixNano() >= 0 && e.lastChange.UnixNano() <= vNow)
		verifAssume(w.r > 0 || e.status != recovering)
		if listed {
			m.endpoints[e.id] = e
			n++
		}
	}
	verifAssume(n >= 1)
	// priorities of listed endpoints are a permutation of 0..n-1
	for i := 0; i < vE; i++ {
		if _, ok := m.endpoints[vName(i)]; ok {
			verifAssume(w.eps[i].priority >= 0 && w.eps[i].priority < n)
			for j := i + 1; j < vE; j++ {
				if _, ok2 := m.endpoints[vName(j)]; ok2 {
					verifAssume(w.eps[i].priority != w.eps[j].priority)
				}
			}
		}
	}
	m.current = verifChoose("current", "A", "B", "C")
	_, curListed := m.endpoints[m.current]
	verifAssume(curListed)
	vSetFuture(&m.future, verifChoose("future", "A", "B", "C", ""), m)
	// live recovery timers: exactly the recovering listed endpoints have one, capturing their last change
	for i := 0; i < vE; i++ {
		e := w.eps[i]
		if _, ok := m.endpoints[e.id]; ok && e.status == recovering {
			m.scheduleUnavailable(e)
			t := vTimers[len(vTimers)-1]
			t.kind = 1
			t.due = e.lastChange.UnixNano() + int64(w.r)
		}
	}
	// recovery timers that were stopped by a later state change - but had already expired, so that
	// their callback still runs (time.Timer.Stop reports false and cannot cancel it): they captured
	// an older lastChange of their endpoint
	if w.r > 0 && verifFlag("firestopped") {
		for i := 0; i < vE; i++ {
			e := w.eps[i]
			if verifBool("hasStopped" + verifD(i)) {
				cur := e.lastChange
				old := time.Unix(0, int64(verifInt("stoppedCapture"+verifD(i))))
				verifAssume(old.UnixNano() >= 0 && old.Before(cur))
				fc := e.futureChange
				e.lastChange = old
				m.scheduleUnavailable(e)
				t := vTimers[len(vTimers)-1]
				t.kind, t.stopped = 1, true
				t.due = old.UnixNano() + int64(w.r)
				verifAssume(t.due <= vNow)
				e.lastChange, e.futureChange = cur, fc
			}
		}
	}
	// an endpoint object that was removed while recovering: its timer is still live
	if w.r > 0 && (!verifFlag("lean") || verifFlag("orphan")) && verifBool("hasOrphan") {
		w.orphan = &endpoint{id: verifChoose("orphanId", "A", "B", "C"), priority: verifInt("orphanPrio"), status: recovering, lastChange: time.Unix(0, int64(verifInt("orphanLastChange")))}
		verifAssume(w.orphan.lastChange.UnixNano() >= 0 && w.orphan.lastChange.UnixNano() <= vNow)
		m.scheduleUnavailable(w.orphan)
		vTimers[len(vTimers)-1].due = w.orphan.lastChange.UnixNano() + int64(w.r)
		vTimers[len(vTimers)-1].kind = 1
	}
	// pending delayed switches (closures only capture the multiEndpoint)
	if w.d > 0 {
		ns := verifInt("nSwitchTimers")
		verifAssume(ns >= 0 && ns <= 2)
		if verifFlag("lean") {
			verifAssume(ns <= 1)
		}
		for k := 0; k < 2; k++ {
			if k < ns {
				cur, fut := m.current, m.future
				from := &endpoint{id: "from", status: available}
				to := &endpoint{id: "to", status: available}
				m.current = "from"
				m.switchFromTo(from, to) // registers the real delayed-switch closure
				m.current, m.future = cur, fut
				vTimers[len(vTimers)-1].kind = 2
				vTimers[len(vTimers)-1].due = int64(verifInt("switchDue" + verifD(k)))
				verifAssume(vTimers[len(vTimers)-1].due >= 0 && vTimers[len(vTimers)-1].due <= vNow+int64(w.d))
			}
		}
	}
	w.assumeInv()
	verifLockProbe = func() bool {
		if m.TryLock() {
			m.Unlock()
			return true
		}
		return false
	}
	return w
}

// inv: the conjuncts of Inv_me that concern C13/C14 (structure is by construction above).
func (w *vWorld) inv(check func(bool, string)) {
	v := vLook(w.m)
	check(v.cur < vE && v.listed[v.cur], "C13: current is not a member of the endpoint list")
	top := v.topAvail()
	check(!(v.status[v.cur] == unavailable && top < vE), "C13: current endpoint is unavailable while another endpoint is available")
	for i := 0; i < vE; i++ {
		if v.listed[i] {
			check(w.m.recoveryTimeout > 0 || v.status[i] != recovering, "C14: recovering endpoint without a recovery timeout")
		}
	}
}

func (w *vWorld) assumeInv() { w.inv(func(c bool, _ string) { verifAssume(c) }) }
func (w *vWorld) assertInv() {
	verifBatch(true)
	w.inv(func(c bool, l string) { verifAssert(c, l) })
	verifBatch(false)
}

// conv: the convergence conjunct I-conv: if current is not the top available endpoint, something
// is pending that will bring it there.
func (w *vWorld) conv() bool {
	m := w.m
	v := vLook(m)
	top := v.topAvail()
	if top == vE || top == v.cur {
		return true
	}
	// current is recovering, its timer is live, and the top available endpoint has lower priority
	if v.status[v.cur] == recovering && v.prio[top] > v.prio[v.cur] {
		e := m.endpoints[m.current]
		if t, ok := e.futureChange.(*vTimer); ok && t != nil && t.live() {
			return true
		}
	}
	// or some live recovery timer (of a listed, removed or orphan endpoint) will re-evaluate current
	if m.switchingDelay > 0 {
		for i := 0; i < vE; i++ {
			if t, ok := w.eps[i].futureChange.(*vTimer); ok && t != nil && t.live() {
				return true
			}
			if e, ok := m.endpoints[vName(i)]; ok {
				if t, ok := e.futureChange.(*vTimer); ok && t != nil && t.live() {
					return true
				}
			}
		}
		if w.orphan != nil {
			if t, ok := w.orphan.futureChange.(*vTimer); ok && t != nil && t.live() {
				return true
			}
		}
	}
	// or a delayed switch to the top available endpoint is pending
	if vFutureName(m.future) == vName(top) && m.switchingDelay > 0 && v.status[v.cur] != unavailable {
		for i := 0; i < len(vTimers); i++ {
			if vTimers[i].live() && vTimers[i].kind == 2 {
				return true
			}
		}
	}
	return false
}

// vClassify tags timers created by the operation: a recovery timer is some endpoint's futureChange.
func (w *vWorld) classify() {
	for i := 0; i < len(vTimers); i++ {
		t := vTimers[i]
		if t.kind != 0 {
			continue
		}
		t.kind = 2
		for j := 0; j < vE; j++ {
			if e, ok := w.m.endpoints[vName(j)]; ok && e.futureChange == timerAlike(t) {
				t.kind = 1
			}
		}
	}
}

func VerifH_mestep() {
	w := vMkWorld()
	m, r, d := w.m, w.r, w.d
	verifAssume(w.conv())
	v0 := vLook(m)
	cur0 := m.current
	timers0 := len(vTimers)
	now0 := vNow
	op := verifCase("op")
	verifAssume(op >= 0 && op <= 2)
	var repE int
	var repAvail bool
	var list []string
	var serr error
	var tm0 timerAlike
	switch op {
	case 0:
		repName := verifChoose("ep", "A", "B", "C", "X")
		repE = vE
		for i := 0; i < vE; i++ {
			if repName == vName(i) {
				repE = i
			}
		}
		if repE < vE && v0.listed[repE] {
			tm0 = w.eps[repE].futureChange
		}
		repAvail = verifBool("avail")
		m.SetEndpointAvailability(repName, repAvail)
	case 1:
		list = vListN("list", verifCase("ln"))
		serr = m.SetEndpoints(list)
	case 2:
		i := verifInt("timer")
		verifAssume(i >= 0 && i < len(vTimers))
		t := vTimers[i]
		if verifFlag("firestopped") {
			verifAssume(t.stopped && !t.fired) // an expired timer whose Stop() came too late
			verifReach("stopped timer fired")
		} else {
			verifAssume(t.live())
			for j := 0; j < len(vTimers); j++ {
				verifAssume(!vTimers[j].live() || vTimers[j].due >= t.due)
			}
		}
		if vNow < t.due {
			vNow = t.due
		}
		if t.kind == 2 {
			verifReach("switch timer fired")
		}
		t.fired = true
		t.f()
	}
	verifReach("after op")
	verifAssert(verifLocksFree(), "C13,C14: operation left the MultiEndpoint's lock held (every later call, including Current(), would block)")
	w.classify()
	v1 := vLook(m)
	w.assertInv()
	top1 := v1.topAvail()
	stillListed := v1.listed[v0.cur]
	if op == 1 && len(list) == 0 {
		verifAssert(serr != nil, "C13: empty endpoint list accepted")
		same := cur0 == m.current && timers0 == len(vTimers)
		for i := 0; i < vE; i++ {
			same = same && v0.listed[i] == v1.listed[i] && (!v0.listed[i] || (v0.status[i] == v1.status[i] && v0.prio[i] == v1.prio[i]))
		}
		verifAssert(same, "C13: rejected endpoint list changed the state")
	}
	if op == 1 && len(list) > 0 {
		verifAssert(serr == nil, "C13: valid endpoint list rejected")
		for i := 0; i < vE; i++ {
			in := false
			for j := 0; j < vE; j++ {
				if j < len(list) && list[j] == vName(i) {
					in = true
					verifAssert(v1.listed[i] && v1.prio[i] == j, "C13: endpoint priorities do not follow the new list")
				}
			}
			verifAssert(v1.listed[i] == in, "C13: endpoint set differs from the accepted list")
			if in && v0.listed[i] {
				verifAssert(v1.status[i] == v0.status[i] && m.endpoints[vName(i)] == w.eps[i], "C13,C14: SetEndpoints did not preserve a kept endpoint object and its state (pending recovery timers refer to the object)")
			}
			if in && !v0.listed[i] {
				want := unavailable
				if r > 0 {
					want = recovering
				}
				verifAssert(v1.status[i] == want, "C13: new endpoint does not start unavailable / in its recovery window")
			}
		}
	}
	if top1 == vE {
		if stillListed {
			verifAssert(v1.cur == v0.cur, "C13: current changed although no endpoint is available and it is still listed")
		} else {
			verifAssert(v1.cur == v1.first(), "C13: current was removed with no endpoint available but is not the list's first endpoint")
		}
	}
	if d == 0 {
		want := v0.cur
		if stillListed && v1.status[v0.cur] == recovering && (top1 == vE || v1.prio[top1] > v1.prio[v0.cur]) {
			want = v0.cur
		} else if top1 < vE {
			want = top1
		} else if !stillListed {
			want = v1.first()
		}
		verifAssert(v1.cur == want, "C13: without switching delay current is not (recovering current | top available | unchanged)")
	}
	if stillListed && v1.cur != v0.cur {
		movedDown := v0.status[v0.cur] == available && v1.status[v0.cur] == available && v1.prio[v1.cur] > v1.prio[v0.cur]
		verifAssert(!movedDown, "C14: current moved from an available endpoint to a lower-priority one")
	}
	if stillListed && v1.cur != v0.cur && v0.status[v0.cur] != unavailable && v1.status[v0.cur] == recovering {
		// inside its recovery window a current endpoint gives way to a higher-priority available endpoint only
		verifAssert(v1.status[v1.cur] == available && v1.prio[v1.cur] < v1.prio[v0.cur], "C14: current left an endpoint that is still inside its recovery window for an endpoint that is not a higher-priority available one")
	}
	if d > 0 && op != 2 && stillListed && (v1.status[v0.cur] == available || v1.status[v0.cur] == recovering) && v0.status[v0.cur] != unavailable {
		verifAssert(v1.cur == v0.cur, "C14: with a switching delay current moved inside the call that made a better endpoint available")
	}
	if op == 0 && repE < vE && v0.listed[repE] {
		e := repE
		switch {
		case !repAvail && v0.status[e] == available && r > 0:
			verifReach("recovery window opened")
			verifAssert(v1.status[e] == recovering, "C14: endpoint reported unavailable is not recovering")
			nt := vTimers[len(vTimers)-1]
			_ = nt
			verifAssert(len(vTimers) >= timers0+1, "C14: no recovery timer scheduled")
			ft, ok := w.eps[e].futureChange.(*vTimer)
			verifAssert(ok && ft != nil && ft.live() && ft.d == r && ft.due > now0+int64(r) && ft.due <= vNow+int64(r), "C14: recovery timer not scheduled for the recovery timeout")
			if v0.cur == e && (top1 == vE || v1.prio[top1] > v1.prio[e]) {
				verifAssert(v1.cur == e, "C14: current did not stay on the recovering endpoint")
			}
		case !repAvail && v0.status[e] == available && r == 0:
			verifAssert(v1.status[e] == unavailable, "C14: endpoint reported unavailable without recovery timeout is not unavailable")
		case !repAvail && v0.status[e] != available:
			verifAssert(v1.status[e] == v0.status[e] && w.eps[e].futureChange == tm0 && w.eps[e].lastChange.UnixNano() <= now0, "C13,C14: repeated unavailable report changed the recovery window (an endpoint known to be unavailable must stay unavailable until reported available)")
			if t, ok := tm0.(*vTimer); ok && t != nil {
				verifAssert(t.live() || v0.status[e] != recovering, "C14: repeated unavailable report stopped the recovery timer")
			}
		case repAvail:
			verifAssert(v1.status[e] == available, "C14: endpoint reported available is not available")
			if v0.status[e] == recovering {
				t, ok := tm0.(*vTimer)
				verifAssert(ok && t != nil && t.stopped, "C13,C14: availability report inside the window did not cancel the recovery timer (the stale timer can still make the available endpoint unavailable)")
			}
		}
	}
	if op == 0 && (repE == vE || !v0.listed[repE]) {
		same := cur0 == m.current
		for i := 0; i < vE; i++ {
			same = same && v0.listed[i] == v1.listed[i] && (!v0.listed[i] || (v0.status[i] == v1.status[i] && v0.prio[i] == v1.prio[i]))
		}
		verifAssert(same, "C13: report for an unknown endpoint changed the state")
	}
	if op == 2 && verifFlag("firestopped") {
		// an outdated recovery timer (its endpoint changed state since it was armed) must do nothing
		same := cur0 == m.current && timers0 == len(vTimers)
		for i := 0; i < vE; i++ {
			same = same && v0.listed[i] == v1.listed[i] && (!v0.listed[i] || (v0.status[i] == v1.status[i] && v0.prio[i] == v1.prio[i]))
		}
		verifAssert(same, "C13,C14: an outdated recovery timer changed the state (a recovering endpoint keeps its window; the current endpoint stays current)")
	}
	if op == 2 {
		// a recovery timer firing in time makes its endpoint unavailable and switches at once if something is available
		for i := 0; i < vE; i++ {
			if v0.listed[i] && v0.status[i] == recovering && v1.status[i] != recovering {
				verifReach("recovery window ran out")
				verifAssert(v1.status[i] == unavailable, "C14: recovery timer did not make the endpoint unavailable")
			}
		}
	}
	verifAssert(w.conv(), "C13,C14: convergence: current is not the top available endpoint and nothing pending (recovery window running out, delayed switch) will bring it there")
	verifObserve("cur", uint64(v1.cur))
	verifObserve("timers", uint64(len(vTimers)))
}

// The pending delayed-switch target, whatever representation the code under test gives it: the
// endpoint's name (resolved when the timer fires) or a pointer to the endpoint object.  With a
// pointer, the object may be one that an endpoint-list update has removed (or replaced by a new
// object of the same name) since the switch was scheduled - such states are reachable then.
func vSetFuture[T any](p *T, name string, m *multiEndpoint) {
	switch q := any(p).(type) {
	case *string:
		*q = name
	case **endpoint:
		*q = m.endpoints[name]
		if name != "" && verifBool("futureIsRemovedObject") {
			*q = &endpoint{id: name, status: available, priority: verifInt("futureStalePrio")}
		}
	}
}

func vFutureName[T any](f T) string {
	switch x := any(f).(type) {
	case string:
		return x
	case *endpoint:
		if x != nil {
			return x.id
		}
	}
	return ""
}
