//go:build verif && go1.21

package multiendpoint

// C10 for multiEndpoint: Current(), availability reports, SetEndpoints and both kinds of timer
// closure, pairwise, from an Inv_me state.
func VerifH_raceme() {
	w := vMkWorld()
	m := w.m
	op := func(tag string) func() {
		k := verifInt(tag + "_op")
		verifAssume(k >= 0 && k <= 3)
		name := verifChoose(tag+"_ep", "A", "B", "C", "X")
		avail := verifBool(tag + "_avail")
		list := vList(tag + "_list")
		ti := verifInt(tag + "_timer")
		verifAssume(ti >= 0 && (len(vTimers) == 0 || ti < len(vTimers)))
		return func() {
			switch k {
			case 0:
				m.Current()
			case 1:
				m.SetEndpointAvailability(name, avail)
			case 2:
				m.SetEndpoints(list)
			case 3:
				if ti < len(vTimers) {
					vTimers[ti].f()
				}
			}
		}
	}
	a, b := op("a"), op("b")
	verifReach("before")
	verifPar(a, b)
	verifReach("after")
}
