//go:build verif && go1.21

package main

import (
	"hash/crc32"

	"google.golang.org/protobuf/encoding/protowire"
)

// inner codec: returns an arbitrary byte string (the "standard encoding") or an error
type vCodec struct {
	out     []byte
	err     error
	gotV    interface{}
	calls   int
	unData  []byte
	unV     interface{}
	unErr   error
	unknown []byte // unknown fields the decoded message carries
	overlap func() // runs in the middle of Marshal
}

type vErr struct{}

func (vErr) Error() string { return "inner codec failed" }

func (c *vCodec) Marshal(v interface{}) ([]byte, error) {
	c.gotV = v
	c.calls++
	if f := c.overlap; f != nil {
		// another complete Marshal call of the codec happens while this one is in progress (the
		// schedule in which a second goroutine's call overlaps exactly here)
		c.overlap = nil
		f()
	}
	return c.out, c.err
}
func (c *vCodec) Unmarshal(data []byte, v interface{}) error {
	c.unData, c.unV = data, v
	if c.unErr == nil {
		if m, ok := v.(*vMsg); ok {
			// what a conforming parser yields: the known field and, as unknown fields, everything the
			// schema does not describe (fields of the original message the receiver does not know)
			m.Name, m.XXX_unrecognized = "decoded", c.unknown
		}
	}
	return c.unErr
}

// vMsg: a message of the legacy generated shape (unknown fields are kept in XXX_unrecognized).
type vMsg struct {
	Name             string `protobuf:"bytes,1,opt,name=name,proto3"`
	XXX_unrecognized []byte `json:"-"`
}

func (m *vMsg) Reset()         { *m = vMsg{} }
func (m *vMsg) String() string { return "vMsg" }
func (*vMsg) ProtoMessage()    {}
func (c *vCodec) Name() string { return "v" }

// verifCrcOf is CRC32C natively; under the symbolic executor it is the same uninterpreted value
// that the crc32.Checksum intrinsic returned (DESIGN.md section 4.2).
func verifCrcOf(b []byte) uint32 { return crc32.Checksum(b, crc32.MakeTable(crc32.Castagnoli)) }

// verifCrcArgsOK: symbolically, "crc32.Checksum was called with exactly this slice and a table made
// from the Castagnoli polynomial"; natively the real checksum is compared instead.
func verifCrcArgsOK(b []byte) bool { return true }

const vMaxPayload = 16

func VerifH_ck() {
	max := 8
	if verifFlag("thorough") {
		max = vMaxPayload
	}
	n := verifInt("n")
	verifAssume(n >= 0 && n <= max)
	all := make([]byte, vMaxPayload)
	for i := 0; i < vMaxPayload; i++ {
		if i < max {
			all[i] = verifU8("b" + verifD(i))
		}
	}
	payload := all[:n]
	inner := &vCodec{out: payload}
	if verifBool("innerFails") {
		inner.err = vErr{}
	}
	c := &myCodec{protoCodec: inner}
	if verifBool("overlap") {
		// calls of the codec are independent: gRPC marshals on many goroutines, so another Marshal
		// (another codec value, another message) may run to completion while this one is in progress
		inner.overlap = func() {
			other := &vCodec{out: []byte{0x08, 0x01}}
			o, e := (&myCodec{protoCodec: other}).Marshal(&vMsg{Name: "o"})
			verifAssert(e == nil && len(o) == 8 && other.calls == 1, "C19: the overlapping Marshal call failed")
		}
	}
	msg := &vMsg{Name: "m"} // a message (of the legacy generated shape)
	out, err := c.Marshal(msg)
	verifReach("after marshal")
	verifAssert(inner.calls == 1 && inner.gotV == interface{}(msg), "C19: underlying codec not called exactly once with the message")
	verifAssert((err != nil) == (inner.err != nil), "C19: marshalling error of the underlying codec not passed through")
	if inner.err != nil {
		verifAssert(err == inner.err, "C19: a different error returned")
	}
	if err == nil {
		verifReach("marshalled")
		crc := verifCrcOf(payload)
		verifAssert(verifCrcArgsOK(payload), "C19: checksum not computed over the standard encoding with the CRC32C polynomial")
		verifAssert(len(out) == 6+n, "C19: output is not the standard encoding plus exactly 6 bytes")
		verifAssert(out[0] == 0xfd && out[1] == 0x7f, "C19: prefix is not the tag of field 2047 with the 32-bit wire type")
		verifAssert(out[2] == byte(crc) && out[3] == byte(crc>>8) && out[4] == byte(crc>>16) && out[5] == byte(crc>>24), "C19: checksum value is not the little-endian CRC32C")
		for i := 0; i < vMaxPayload; i++ {
			if i < n {
				verifAssert(out[6+i] == all[i], "C19: standard encoding changed")
			}
		}
		// any conforming parser skips exactly the 6-byte unknown field and then sees the original encoding
		num, typ, m := protowire.ConsumeField(out)
		verifAssert(num == 2047 && typ == protowire.Fixed32Type && m == 6, "C19: a conforming parser does not see one 6-byte unknown field 2047 of wire type 5")
		verifObserve("len", uint64(len(out)))
		verifObserve("consumed", uint64(m))
	}
	// outputs are independent: marshalling another message does not change an output handed out earlier
	if err == nil {
		saved := make([]byte, 6+vMaxPayload)
		for i := 0; i < 6+vMaxPayload; i++ {
			if i < len(out) {
				saved[i] = out[i]
			}
		}
		n2 := verifInt("n2")
		verifAssume(n2 >= 0 && n2 <= max)
		all2 := make([]byte, vMaxPayload)
		for i := 0; i < vMaxPayload; i++ {
			if i < max {
				all2[i] = verifU8("c" + verifD(i))
			}
		}
		inner.out = all2[:n2]
		out2, err2 := c.Marshal(&vMsg{Name: "n"})
		verifReach("second marshal")
		verifAssert(err2 == nil && len(out2) == 6+n2, "C19: second Marshal failed or has the wrong length")
		// every call computes its own checksum from scratch (nothing carried over from the call before)
		crc2 := verifCrcOf(all2[:n2])
		verifAssert(verifCrcArgsOK(all2[:n2]), "C19: checksum of the second message not computed over its standard encoding with the CRC32C polynomial")
		if err2 == nil && len(out2) == 6+n2 {
			verifAssert(out2[0] == 0xfd && out2[1] == 0x7f && out2[2] == byte(crc2) && out2[3] == byte(crc2>>8) && out2[4] == byte(crc2>>16) && out2[5] == byte(crc2>>24), "C19: prefix of the second message is not tag + little-endian CRC32C of its own encoding")
		}
		for i := 0; i < 6+vMaxPayload; i++ {
			if i < len(out) {
				verifAssert(out[i] == saved[i], "C19: an output handed out earlier changed when another message was marshalled (outputs share memory)")
			}
		}
		for i := 0; i < vMaxPayload; i++ {
			if i < n2 {
				verifAssert(out2[6+i] == all2[i], "C19: standard encoding changed (second message)")
			}
		}
	}
	// Unmarshal delegates unchanged
	if verifBool("unmarshalFails") {
		inner.unErr = vErr{}
	}
	target := &vMsg{}
	unk := []byte{verifU8("unk0"), verifU8("unk1"), verifU8("unk2")}
	inner.unknown = unk[:verifChooseLen()]
	uerr := c.Unmarshal(out, target)
	verifAssert(uerr == inner.unErr && inner.unV == interface{}(target) && len(inner.unData) == len(out), "C19: Unmarshal does not delegate data, target and result unchanged")
	if inner.unErr == nil {
		// decoding with the codec yields exactly the message the underlying codec decoded - including
		// the fields of the original message that the receiving schema does not know
		same := target.Name == "decoded" && len(target.XXX_unrecognized) == len(inner.unknown)
		for i := 0; i < 3; i++ {
			if i < len(inner.unknown) && i < len(target.XXX_unrecognized) {
				same = same && target.XXX_unrecognized[i] == unk[i]
			}
		}
		verifAssert(same, "C19: message decoded through the codec differs from what the underlying codec decoded (fields dropped or changed)")
	}
	verifObserve("err", verifB2U(err != nil))
}

func verifChooseLen() int {
	n := verifInt("nUnknown")
	verifAssume(n >= 0 && n <= 3)
	return n
}

// A payload well beyond the symbolic bound of VerifH_ck (and beyond typical buffer / logging
// limits): 5000 bytes of concrete content, symbolic checksum value.  Length-dependent behaviour
// (truncation, chunking) shows here.
func VerifH_ckbig() {
	const n = 5000
	payload := make([]byte, n) // (content: zeros - the subject is the length)
	payload[0], payload[n-1] = 0x0a, 0x7e
	inner := &vCodec{out: payload}
	c := &myCodec{protoCodec: inner}
	out, err := c.Marshal(&vMsg{Name: "big"})
	verifReach("after marshal")
	verifAssert(err == nil && inner.calls == 1, "C19: marshalling a large message failed")
	crc := verifCrcOf(payload)
	verifAssert(verifCrcArgsOK(payload), "C19: checksum not computed over the standard encoding with the CRC32C polynomial")
	verifAssert(len(out) == 6+n, "C19: output is not the standard encoding plus exactly 6 bytes (large message)")
	if len(out) == 6+n {
		verifAssert(out[0] == 0xfd && out[1] == 0x7f && out[2] == byte(crc) && out[3] == byte(crc>>8) && out[4] == byte(crc>>16) && out[5] == byte(crc>>24), "C19: prefix of a large message is not tag + little-endian CRC32C")
		verifAssert(verifBytesEqual(out[6:], payload), "C19: standard encoding of a large message changed")
	}
	verifObserve("len", uint64(len(out)))
}
