package main

import (
	"fmt"
	"os"
)

func main() {
	if len(os.Args) < 2 {
		fmt.Fprintln(os.Stderr, "usage: symgo run|check|replay ...")
		os.Exit(2)
	}
	switch os.Args[1] {
	case "run":
		os.Exit(cmdRun(os.Args[2:]))
	case "check":
		os.Exit(cmdCheck(os.Args[2:]))
	case "replay":
		os.Exit(cmdReplay(os.Args[2:]))
	case "list":
		for _, p := range allProps() {
			fmt.Println(p.ID)
		}
	default:
		fmt.Fprintln(os.Stderr, "unknown command", os.Args[1])
		os.Exit(2)
	}
}
