package main

import (
	"fmt"
	"go/types"

	"golang.org/x/tools/go/ssa"
)

type Value interface{}

// *Term is used directly for bool / integer scalars.

type StrV struct {
	conc bool
	s    string
	id   *Term // BV32 when !conc
}

type PtrAlt struct {
	g    *Term
	obj  int
	path []int
}
type PtrV struct {
	alts []PtrAlt
	nilG *Term
}

type IfaceAlt struct {
	g   *Term
	typ types.Type
	val Value
}
type IfaceV struct {
	alts []IfaceAlt
	nilG *Term
}

type StructV struct{ f []Value }
type ArrayV struct{ e []Value }
type SliceV struct {
	arr PtrV // pointer to ArrayV object root; nil for nil slice
	off int
	len *Term // BV64
	cap *Term
}
type MapV struct {
	obj  int   // 0 => nil map
	nilG *Term // for obj != 0: condition under which this value is the nil map (nil pointer = never)
	more []MapAlt // further alternatives: under more[i].g (pairwise exclusive, taking precedence over obj) the value is map object more[i].obj
}

type MapAlt struct {
	g   *Term
	obj int
}

// alts returns all (guard, object) alternatives of a map value (guards pairwise exclusive; the
// remainder is the nil map).
func (m MapV) alts() []MapAlt {
	var out []MapAlt
	rest := True
	for _, al := range m.more {
		out = append(out, MapAlt{And(rest, al.g), al.obj})
		rest = And(rest, Not(al.g))
	}
	if m.obj != 0 {
		out = append(out, MapAlt{And(rest, Not(m.isNilPrimary())), m.obj})
	}
	return out
}

func (m MapV) isNilPrimary() *Term {
	if m.obj == 0 {
		return True
	}
	if m.nilG == nil {
		return False
	}
	return m.nilG
}

func (m MapV) isNil() *Term {
	c := True
	for _, al := range m.alts() {
		c = And(c, Not(al.g))
	}
	return c
}
type MapEntry struct {
	key     Value
	present *Term
	val     Value
}
type MapData struct{ entries []MapEntry }
type FuncV struct {
	fn   *ssa.Function
	bind []Value
	name string // intrinsic by name when fn has no body
	nilG *Term  // guard under which this func value is nil (nil means "never" for non-nil funcs)
	others []FuncGuarded // alternatives taking precedence under their guards
}

type FuncGuarded struct {
	g *Term
	f FuncV
}

func (f FuncV) isNilConst() bool { return f.fn == nil && f.name == "" }
func (f FuncV) nilGuard() *Term {
	if f.isNilConst() {
		return True
	}
	if f.nilG == nil {
		return False
	}
	return f.nilG
}
type TupleV []Value
type ChanV struct{ obj int }
type ChanData struct {
	closed *Term
	ticker bool // a time.Ticker channel: may be ready at any select
}
type MutexData struct {
	writer  bool
	readers int
}
type IterV struct{ obj int }
type IterData struct {
	nilG *Term
	m   int
	pos *Term // BV8
	n   int
}
type OpaqueV struct {
	tag string
}

var strIntern = map[string]uint64{"": 0}

func strID(s StrV) *Term {
	if !s.conc {
		return s.id
	}
	id, ok := strIntern[s.s]
	if !ok {
		id = uint64(len(strIntern)) + 1000000
		strIntern[s.s] = id
	}
	return BV(32, id)
}
func ConcStr(s string) StrV { return StrV{conc: true, s: s} }

func nilPtr() PtrV                 { return PtrV{nilG: True} }
func ptrTo(obj int, path ...int) PtrV { return PtrV{alts: []PtrAlt{{g: True, obj: obj, path: path}}, nilG: False} }
func nilIface() IfaceV             { return IfaceV{nilG: True} }

func samePath(a, b []int) bool {
	if len(a) != len(b) {
		return false
	}
	for i := range a {
		if a[i] != b[i] {
			return false
		}
	}
	return true
}

func ptrEq(a, b PtrV) *Term {
	var ds []*Term
	ds = append(ds, And(a.nilG, b.nilG))
	for _, x := range a.alts {
		for _, y := range b.alts {
			if x.obj == y.obj && samePath(x.path, y.path) {
				ds = append(ds, And(x.g, y.g))
			}
		}
	}
	return Or(ds...)
}

func valEq(a, b Value) *Term {
	switch x := a.(type) {
	case *Term:
		if x.sort.FP {
			return FPCmp("eq", x, b.(*Term))
		}
		return Eq(x, b.(*Term))
	case StrV:
		y := b.(StrV)
		if x.conc && y.conc {
			return BoolC(x.s == y.s)
		}
		return Eq(strID(x), strID(y))
	case PtrV:
		return ptrEq(x, b.(PtrV))
	case IfaceV:
		y := b.(IfaceV)
		ds := []*Term{And(x.nilG, y.nilG)}
		for _, p := range x.alts {
			for _, q := range y.alts {
				if types.Identical(p.typ, q.typ) {
					ds = append(ds, And(p.g, q.g, valEq(p.val, q.val)))
				}
			}
		}
		return Or(ds...)
	case StructV:
		y := b.(StructV)
		var cs []*Term
		for i := range x.f {
			cs = append(cs, valEq(x.f[i], y.f[i]))
		}
		return And(cs...)
	case MapV:
		y := b.(MapV)
		if len(x.more) == 0 && len(y.more) == 0 && x.obj != 0 && y.obj != 0 {
			return BoolC(x.obj == y.obj)
		}
		return And(x.isNil(), y.isNil())
	case ChanV:
		return BoolC(x.obj == b.(ChanV).obj)
	case FuncV:
		y := b.(FuncV)
		if y.isNilConst() {
			return x.nilGuard()
		}
		if x.isNilConst() {
			return y.nilGuard()
		}
		return BoolC(x.fn == y.fn && x.name == y.name && len(x.bind) == 0 && len(y.bind) == 0)
	case OpaqueV:
		return BoolC(x.tag == b.(OpaqueV).tag)
	case SliceV:
		// only comparison with nil is legal in Go
		y := b.(SliceV)
		return And(x.arr.nilG, y.arr.nilG)
	}
	panic(fmt.Sprintf("valEq: unsupported %T", a))
}

// iteVal merges two values of the same Go type.
func iteVal(c *Term, a, b Value) Value {
	if c.IsTrue() {
		return a
	}
	if c.IsFalse() {
		return b
	}
	switch x := a.(type) {
	case *Term:
		return Ite(c, x, b.(*Term))
	case StrV:
		y := b.(StrV)
		if x.conc && y.conc && x.s == y.s {
			return x
		}
		return StrV{id: Ite(c, strID(x), strID(y))}
	case PtrV:
		y := b.(PtrV)
		r := PtrV{nilG: Ite(c, x.nilG, y.nilG)}
		for _, p := range x.alts {
			r.alts = append(r.alts, PtrAlt{g: And(c, p.g), obj: p.obj, path: p.path})
		}
		nc := Not(c)
	outer:
		for _, q := range y.alts {
			for i := range r.alts {
				if r.alts[i].obj == q.obj && samePath(r.alts[i].path, q.path) {
					r.alts[i].g = Or(r.alts[i].g, And(nc, q.g))
					continue outer
				}
			}
			r.alts = append(r.alts, PtrAlt{g: And(nc, q.g), obj: q.obj, path: q.path})
		}
		return normPtr(r)
	case IfaceV:
		y := b.(IfaceV)
		r := IfaceV{nilG: Ite(c, x.nilG, y.nilG)}
		for _, p := range x.alts {
			r.alts = append(r.alts, IfaceAlt{g: And(c, p.g), typ: p.typ, val: p.val})
		}
		nc := Not(c)
	outer2:
		for _, q := range y.alts {
			for i := range r.alts {
				if types.Identical(r.alts[i].typ, q.typ) {
					// merge values under guards
					g := And(nc, q.g)
					r.alts[i].val = iteVal(r.alts[i].g, r.alts[i].val, q.val)
					r.alts[i].g = Or(r.alts[i].g, g)
					continue outer2
				}
			}
			r.alts = append(r.alts, IfaceAlt{g: And(nc, q.g), typ: q.typ, val: q.val})
		}
		return normIface(r)
	case StructV:
		y := b.(StructV)
		r := StructV{f: make([]Value, len(x.f))}
		for i := range x.f {
			r.f[i] = iteVal(c, x.f[i], y.f[i])
		}
		return r
	case ArrayV:
		y := b.(ArrayV)
		r := ArrayV{e: make([]Value, len(x.e))}
		for i := range x.e {
			r.e[i] = iteVal(c, x.e[i], y.e[i])
		}
		return r
	case SliceV:
		y := b.(SliceV)
		if x.off != y.off {
			panic(unsupported("iteVal slices with different offsets"))
		}
		return SliceV{arr: iteVal(c, x.arr, y.arr).(PtrV), off: x.off, len: Ite(c, x.len, y.len), cap: Ite(c, x.cap, y.cap)}
	case TupleV:
		y := b.(TupleV)
		r := make(TupleV, len(x))
		for i := range x {
			r[i] = iteVal(c, x[i], y[i])
		}
		return r
	case MapV:
		y := b.(MapV)
		if len(x.more) == 0 && len(y.more) == 0 {
			switch {
			case x.obj == y.obj:
				return MapV{obj: x.obj, nilG: Ite(c, x.isNil(), y.isNil())}
			case x.obj == 0:
				return MapV{obj: y.obj, nilG: Ite(c, True, y.isNil())}
			case y.obj == 0:
				return MapV{obj: x.obj, nilG: Ite(c, x.isNil(), True)}
			}
		}
		// different map objects: a guarded union (x's alternatives under c take precedence)
		r := MapV{obj: y.obj, nilG: y.nilG}
		for _, al := range x.alts() {
			r.more = append(r.more, MapAlt{And(c, al.g), al.obj})
		}
		// under c and x nil the value is nil: encode by guarding y's alternatives with !c
		for _, al := range y.more {
			r.more = append(r.more, MapAlt{And(Not(c), al.g), al.obj})
		}
		if y.obj != 0 {
			r.nilG = Or(c, y.isNilPrimary())
		}
		return r
	case MapData:
		y := b.(MapData)
		// slots with an identical key are merged slot-wise; the others are kept side by side, present
		// only under their own side's guard (keys stay pairwise distinct among present slots)
		r := MapData{}
		usedY := make([]bool, len(y.entries))
		for _, ex := range x.entries {
			j := -1
			for k, ey := range y.entries {
				if !usedY[k] && valEq(ex.key, ey.key).IsTrue() {
					j = k
					break
				}
			}
			if j >= 0 {
				ey := y.entries[j]
				usedY[j] = true
				var v Value
				switch {
				case ex.present.IsFalse():
					v = ey.val
				case ey.present.IsFalse():
					v = ex.val
				default:
					v = iteVal(c, ex.val, ey.val)
				}
				r.entries = append(r.entries, MapEntry{key: ex.key, present: Ite(c, ex.present, ey.present), val: v})
			} else {
				r.entries = append(r.entries, MapEntry{key: ex.key, present: And(c, ex.present), val: ex.val})
			}
		}
		for k, ey := range y.entries {
			if !usedY[k] {
				r.entries = append(r.entries, MapEntry{key: ey.key, present: And(Not(c), ey.present), val: ey.val})
			}
		}
		return r
	case IterData:
		y := b.(IterData)
		if x.m == y.m && x.n == y.n {
			return IterData{m: x.m, n: x.n, pos: Ite(c, x.pos, y.pos), nilG: x.nilG}
		}
	case ChanData:
		return ChanData{closed: Ite(c, x.closed, b.(ChanData).closed), ticker: x.ticker}
	case IterV:
		if x.obj == b.(IterV).obj {
			return x
		}
	case RV:
		return RV{iv: iteVal(c, x.iv, b.(RV).iv).(IfaceV)}
	case nil:
		if b == nil {
			return nil
		}
	case ChanV:
		if x.obj == b.(ChanV).obj {
			return x
		}
	case FuncV:
		y := b.(FuncV)
		switch {
		case x.isNilConst() && y.isNilConst():
			return x
		case x.isNilConst():
			return FuncV{fn: y.fn, bind: y.bind, name: y.name, nilG: Ite(c, True, y.nilGuard())}
		case y.isNilConst():
			return FuncV{fn: x.fn, bind: x.bind, name: x.name, nilG: Ite(c, x.nilGuard(), True)}
		case x.fn == y.fn && x.name == y.name && len(x.bind) == len(y.bind):
			r := FuncV{fn: x.fn, name: x.name, nilG: Ite(c, x.nilGuard(), y.nilGuard())}
			ok := len(x.others) == 0 && len(y.others) == 0
			for i := range x.bind {
				r.bind = append(r.bind, iteVal(c, x.bind[i], y.bind[i]))
			}
			if ok {
				return r
			}
		}
		// different targets: keep y as the default and x as a guarded alternative
		r := y
		r.others = append(append([]FuncGuarded(nil), y.others...), FuncGuarded{g: c, f: x})
		r.nilG = Ite(c, x.nilGuard(), y.nilGuard())
		return r
	case OpaqueV:
		if x.tag == b.(OpaqueV).tag {
			return x
		}
	}
	panic(unsupported(fmt.Sprintf("iteVal %T", a)))
}

func normPtr(p PtrV) PtrV {
	var alts []PtrAlt
	for _, a := range p.alts {
		if !a.g.IsFalse() {
			alts = append(alts, a)
		}
	}
	p.alts = alts
	return p
}
func normIface(p IfaceV) IfaceV {
	var alts []IfaceAlt
	for _, a := range p.alts {
		if !a.g.IsFalse() {
			alts = append(alts, a)
		}
	}
	p.alts = alts
	return p
}

type unsupportedErr struct {
	msg     string
	checked bool
}

func unsupported(msg string) unsupportedErr { return unsupportedErr{msg: msg} }

func intWidth(t types.Type) (int, bool) {
	b, ok := t.Underlying().(*types.Basic)
	if !ok {
		return 0, false
	}
	switch b.Kind() {
	case types.Int8:
		return 8, true
	case types.Uint8:
		return 8, false
	case types.Int16:
		return 16, true
	case types.Uint16:
		return 16, false
	case types.Int32:
		return 32, true
	case types.Uint32:
		return 32, false
	case types.Int64, types.Int, types.UntypedInt:
		return 64, true
	case types.Uint64, types.Uint, types.Uintptr:
		return 64, false
	}
	return 0, false
}

func isInt(t types.Type) bool {
	b, ok := t.Underlying().(*types.Basic)
	return ok && b.Info()&types.IsInteger != 0
}

// zeroVal returns the zero value of a Go type.
func (in *Interp) zeroVal(t types.Type) Value {
	if t.String() == "reflect.Value" {
		return RV{iv: nilIface()}
	}
	switch u := t.Underlying().(type) {
	case *types.Basic:
		switch {
		case u.Info()&types.IsBoolean != 0:
			return False
		case u.Info()&types.IsInteger != 0:
			w, _ := intWidth(t)
			return BV(w, 0)
		case u.Info()&types.IsString != 0:
			return ConcStr("")
		case u.Info()&types.IsFloat != 0:
			return FPFromBits(BV(64, 0))
		case u.Kind() == types.UnsafePointer:
			return nilPtr()
		case u.Kind() == types.UntypedNil:
			return nilPtr()
		}
	case *types.Pointer:
		return nilPtr()
	case *types.Interface:
		return nilIface()
	case *types.Struct:
		s := StructV{f: make([]Value, u.NumFields())}
		for i := range s.f {
			s.f[i] = in.zeroVal(u.Field(i).Type())
		}
		return s
	case *types.Array:
		a := ArrayV{e: make([]Value, u.Len())}
		for i := range a.e {
			a.e[i] = in.zeroVal(u.Elem())
		}
		return a
	case *types.Slice:
		return SliceV{arr: nilPtr(), len: BV(64, 0), cap: BV(64, 0)}
	case *types.Map:
		return MapV{}
	case *types.Chan:
		return nilPtr()
	case *types.Signature:
		return FuncV{}
	case *types.Tuple:
		tv := make(TupleV, u.Len())
		for i := range tv {
			tv[i] = in.zeroVal(u.At(i).Type())
		}
		return tv
	}
	panic(unsupported("zeroVal " + t.String()))
}

func navigate(root Value, path []int) Value {
	for _, i := range path {
		switch x := root.(type) {
		case StructV:
			root = x.f[i]
		case ArrayV:
			root = x.e[i]
		default:
			panic(fmt.Sprintf("navigate: %T", root))
		}
	}
	return root
}

func update(root Value, path []int, v Value) Value {
	if len(path) == 0 {
		return v
	}
	switch x := root.(type) {
	case StructV:
		nf := make([]Value, len(x.f))
		copy(nf, x.f)
		nf[path[0]] = update(x.f[path[0]], path[1:], v)
		return StructV{f: nf}
	case ArrayV:
		ne := make([]Value, len(x.e))
		copy(ne, x.e)
		ne[path[0]] = update(x.e[path[0]], path[1:], v)
		return ArrayV{e: ne}
	}
	panic(fmt.Sprintf("update: %T", root))
}
