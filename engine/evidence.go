package main

import (
	"encoding/json"
	"fmt"
	"os"
	"path/filepath"
	"sort"
)

type evidence struct {
	prop           *Prop
	tier           string
	seed           int
	wall           float64
	blocks, instrs int
	merges         int
	obligations    int
	discharged     int
	queries        int
	sat, unsat     int
	unknown, fb    int
	solverS        float64
	fallbackS      float64
	crossN         int
	terms          int
	funcs          map[string]int
	stubs          map[string]int
	samples        []interface{}
	runs           []map[string]interface{}
	validated      int
	obsCompared    int
	knownSeen      []string
	violations     int
	violationNotes []string
	inconclusive   []string
	reach          int
	unconfirmedRaces []string
}

func newEvidence(p *Prop, tier string, seed int) *evidence {
	return &evidence{prop: p, tier: tier, seed: seed, funcs: map[string]int{}, stubs: map[string]int{}}
}

func (e *evidence) addRun(o jobOut) {
	r := o.res
	e.blocks += r.Blocks
	e.instrs += r.Instrs
	e.merges += r.Merges
	e.obligations += r.Obligations
	e.discharged += r.Discharged
	e.queries += r.Queries
	e.sat += r.Sat
	e.unsat += r.Unsat
	e.unknown += r.Unknown
	e.fb += r.Fallback
	e.solverS += r.SolverS
	e.fallbackS += r.FallbackS
	e.crossN += r.CrossN
	e.terms += r.Terms
	e.reach += len(r.Reach)
	for k, v := range r.Funcs {
		e.funcs[k] += v
	}
	for k, v := range r.Stubs {
		e.stubs[k] += v
	}
	for i, s := range r.Samples {
		if i < 3 && len(e.samples) < 40 {
			e.samples = append(e.samples, map[string]string{"entry": r.Entry, "obligation": s})
		}
	}
	e.runs = append(e.runs, map[string]interface{}{
		"entry": r.Entry, "pkg": r.Pkg, "flags": r.Flags, "status": r.Status, "unroll": r.Unroll, "solver": r.Solver, "logic": r.Logic,
		"blocks": r.Blocks, "instrs": r.Instrs, "obligations": r.Obligations, "discharged": r.Discharged,
		"queries": r.Queries, "sat": r.Sat, "unsat": r.Unsat, "unknown": r.Unknown, "fallback_answers": r.Fallback,
		"solver_s": r.SolverS, "load_s": r.LoadS, "exec_s": r.ExecS, "wall_s": o.wall, "reach": r.Reach, "cross_checked": r.CrossN,
		"findings": len(r.Findings),
	})
}

func (e *evidence) write() {
	var fnames, snames []string
	for k := range e.funcs {
		fnames = append(fnames, k)
	}
	for k := range e.stubs {
		snames = append(snames, k)
	}
	sort.Strings(fnames)
	sort.Strings(snames)
	if len(e.samples) == 0 {
		e.samples = append(e.samples, "no obligation was generated")
	}
	level := e.prop.Level
	if level == "" {
		level = "model_checking"
	}
	cov := map[string]interface{}{
		"states":                        e.blocks,
		"transitions":                   e.instrs,
		"traces_validated_against_impl": e.validated,
		"observed_values_compared":      e.obsCompared,
		"samples":                       e.samples,
		"obligations":                   e.obligations,
		"discharged":                    e.discharged,
		"state_merges":                  e.merges,
		"functions_encoded":             fnames,
		"stubs_and_intrinsics_hit":      snames,
		"bounds":                        e.prop.Bounds,
		"queries":                       map[string]int{"total": e.queries, "sat": e.sat, "unsat": e.unsat, "unknown": e.unknown, "answered_by_fallback_solver": e.fb, "cross_checked_on_second_solver": e.crossN},
		"solver_s":                      e.solverS,
		"fallback_solver_s":             e.fallbackS,
		"smt_terms":                     e.terms,
		"reachability_witnesses":        e.reach,
		"runs":                          e.runs,
		"known_findings_observed":       e.knownSeen,
		"violation_notes":               e.violationNotes,
		"race_candidates_unconfirmed_by_race_detector": e.unconfirmedRaces,
		"inconclusive":                  e.inconclusive,
		"explanation":                   "states = guarded basic-block executions of the SSA built from the working tree (each stands for all paths reaching that block in that unrolling); transitions = SSA instructions executed symbolically; every obligation is one SMT query (guard AND NOT condition) decided by cvc5 (z3-new as fallback and cross-check); traces_validated_against_impl = witness models replayed natively through the same harness against the real build with all observed values equal to the executor's prediction",
	}
	doc := map[string]interface{}{
		"property_id": e.prop.ID,
		"tier":        e.tier,
		"seed":        e.seed,
		"level":       level,
		"coverage":    cov,
		"assumptions": e.prop.Assume,
		"wall_s":      e.wall,
		"violations":  e.violations,
	}
	b, _ := json.MarshalIndent(doc, "", " ")
	dir := filepath.Join(verifRoot(), "evidence")
	if r := os.Getenv("VERIF_REPO"); r != "" && r != "/repo" {
		// runs against a scratch worktree (seeded changes) must not overwrite the evidence of /repo
		dir = filepath.Join(verifRoot(), "out", "evidence_other_tree")
	}
	os.MkdirAll(dir, 0o755)
	if err := os.WriteFile(filepath.Join(dir, e.prop.ID+".json"), b, 0o644); err != nil {
		fmt.Println("cannot write evidence:", err)
	}
}
