package main

import (
	"fmt"
	"go/constant"
	"go/types"
	"os/exec"
	"strings"
	"time"

	"golang.org/x/tools/go/ssa"
)

// Pattern P7 (DESIGN.md section 3): the regexp engine is out of reach, so the regular-expression
// literals and Sprintf formats are read from the SSA constants of the current source, translated
// to SMT-LIB RegLan / string terms, and the injection-freedom questions are asked of the string
// solver (cvc5 --strings-exp).

// regexToSMT translates a small subset of Go regexp syntax (anchors, character classes, literals,
// '.', and the postfix operators * + ?) to an SMT-LIB RegLan term with Go's unanchored-search
// semantics of MatchString.
func regexToSMT(lit string) (string, error) {
	i := 0
	anchoredL, anchoredR := false, false
	if strings.HasPrefix(lit, "^") {
		anchoredL = true
		i = 1
	}
	end := len(lit)
	if strings.HasSuffix(lit, "$") && !strings.HasSuffix(lit, `\$`) {
		anchoredR = true
		end--
	}
	var parts []string
	for i < end {
		var atom string
		switch c := lit[i]; c {
		case '[':
			j := strings.IndexByte(lit[i+1:], ']')
			if j < 0 {
				return "", fmt.Errorf("unterminated class")
			}
			cls := lit[i+1 : i+1+j]
			i += j + 2
			neg := false
			if strings.HasPrefix(cls, "^") {
				neg = true
				cls = cls[1:]
			}
			var alts []string
			for k := 0; k < len(cls); k++ {
				ch := cls[k]
				if ch == '\\' && k+1 < len(cls) {
					k++
					ch = cls[k]
				}
				if k+2 < len(cls) && cls[k+1] == '-' {
					alts = append(alts, fmt.Sprintf("(re.range %s %s)", smtStr(string(ch)), smtStr(string(cls[k+2]))))
					k += 2
				} else {
					alts = append(alts, fmt.Sprintf("(str.to_re %s)", smtStr(string(ch))))
				}
			}
			switch len(alts) {
			case 0:
				atom = "re.none"
			case 1:
				atom = alts[0]
			default:
				atom = "(re.union " + strings.Join(alts, " ") + ")"
			}
			if neg {
				atom = "(re.diff re.allchar " + atom + ")"
			}
		case '.':
			atom = "re.allchar"
			i++
		case '\\':
			if i+1 >= end {
				return "", fmt.Errorf("trailing backslash")
			}
			atom = fmt.Sprintf("(str.to_re %s)", smtStr(string(lit[i+1])))
			i += 2
		case '(', ')', '|', '{', '}', '^', '$':
			return "", fmt.Errorf("unsupported regexp syntax %q in %q", string(c), lit)
		default:
			atom = fmt.Sprintf("(str.to_re %s)", smtStr(string(c)))
			i++
		}
		if i < end {
			switch lit[i] {
			case '*':
				atom = "(re.* " + atom + ")"
				i++
			case '+':
				atom = "(re.+ " + atom + ")"
				i++
			case '?':
				atom = "(re.opt " + atom + ")"
				i++
			}
		}
		parts = append(parts, atom)
	}
	if !anchoredL {
		parts = append([]string{"re.all"}, parts...)
	}
	if !anchoredR {
		parts = append(parts, "re.all")
	}
	switch len(parts) {
	case 0:
		return `(str.to_re "")`, nil
	case 1:
		return parts[0], nil
	}
	return "(re.++ " + strings.Join(parts, " ") + ")", nil
}

func smtStr(s string) string {
	var sb strings.Builder
	sb.WriteByte('"')
	for _, r := range s {
		if r == '"' {
			sb.WriteString(`""`)
		} else if r < 32 || r > 126 {
			fmt.Fprintf(&sb, `\u{%x}`, r)
		} else {
			sb.WriteRune(r)
		}
	}
	sb.WriteByte('"')
	return sb.String()
}

// constStringArgs returns the constant string arguments (position arg) of calls to callee in fn.
// regexLiteral: v is regexp.MustCompile("const") or the first result of regexp.Compile("const").
func regexLiteral(v ssa.Value) string {
	if e, ok := v.(*ssa.Extract); ok {
		v = e.Tuple
	}
	c, ok := v.(*ssa.Call)
	if !ok {
		return ""
	}
	f := c.Call.StaticCallee()
	if f == nil || (f.String() != "regexp.Compile" && f.String() != "regexp.MustCompile") {
		return ""
	}
	if k, ok := c.Call.Args[0].(*ssa.Const); ok && k.Value != nil && k.Value.Kind() == constant.String {
		return constant.StringVal(k.Value)
	}
	return ""
}

type tmplPart struct{ lit, field string }

// stringTemplate reads a string-valued function as a concatenation of constants and fields of its
// receiver: constants, field loads, +, fmt.Sprintf with a constant format of %s/%v verbs, and calls of
// functions of the same package that are templates themselves.  Anything else is an error.
func stringTemplate(fn *ssa.Function, bind map[*ssa.Parameter][]tmplPart, depth int) ([]tmplPart, error) {
	if depth > 5 || fn.Blocks == nil {
		return nil, fmt.Errorf("%s: no body / too deep", fn)
	}
	if len(fn.Blocks) != 1 {
		return nil, fmt.Errorf("%s has branches", fn)
	}
	var eval func(v ssa.Value) ([]tmplPart, error)
	eval = func(v ssa.Value) ([]tmplPart, error) {
		switch x := v.(type) {
		case *ssa.Const:
			if x.Value != nil && x.Value.Kind() == constant.String {
				return []tmplPart{{lit: constant.StringVal(x.Value)}}, nil
			}
		case *ssa.Parameter:
			if b, ok := bind[x]; ok {
				return b, nil
			}
		case *ssa.UnOp:
			if fa, ok := x.X.(*ssa.FieldAddr); ok {
				st := fa.X.Type().Underlying().(*types.Pointer).Elem().Underlying().(*types.Struct)
				return []tmplPart{{field: st.Field(fa.Field).Name()}}, nil
			}
		case *ssa.BinOp:
			if x.Op.String() == "+" {
				l, err := eval(x.X)
				if err != nil {
					return nil, err
				}
				r, err := eval(x.Y)
				if err != nil {
					return nil, err
				}
				return append(append([]tmplPart{}, l...), r...), nil
			}
		case *ssa.ChangeType:
			return eval(x.X)
		case *ssa.MakeInterface:
			return eval(x.X)
		case *ssa.Call:
			f := x.Call.StaticCallee()
			if f == nil {
				break
			}
			if f.String() == "fmt.Sprintf" {
				k, ok := x.Call.Args[0].(*ssa.Const)
				if !ok {
					break
				}
				format := constant.StringVal(k.Value)
				// the variadic arguments: a slice of a fresh array filled by stores in this block
				var args []ssa.Value
				if len(x.Call.Args) > 1 {
					sl, ok := x.Call.Args[1].(*ssa.Slice)
					if !ok {
						break
					}
					for _, instr := range fn.Blocks[0].Instrs {
						if st, ok := instr.(*ssa.Store); ok {
							if ia, ok := st.Addr.(*ssa.IndexAddr); ok && ia.X == sl.X {
								args = append(args, st.Val)
							}
						}
					}
				}
				var out []tmplPart
				ai := 0
				for i := 0; i < len(format); i++ {
					if format[i] != '%' {
						out = append(out, tmplPart{lit: string(format[i])})
						continue
					}
					if i+1 >= len(format) || (format[i+1] != 's' && format[i+1] != 'v') || ai >= len(args) {
						return nil, fmt.Errorf("format %q is not a plain %%s template", format)
					}
					p, err := eval(args[ai])
					if err != nil {
						return nil, err
					}
					out = append(out, p...)
					ai++
					i++
				}
				return out, nil
			}
			if f.Pkg == fn.Pkg && f.Blocks != nil {
				nb := map[*ssa.Parameter][]tmplPart{}
				for i, p := range f.Params {
					if i == 0 && f.Signature.Recv() != nil {
						continue // the receiver: field loads name the fields directly
					}
					if i < len(x.Call.Args) {
						pv, err := eval(x.Call.Args[i])
						if err != nil {
							return nil, err
						}
						nb[p] = pv
					}
				}
				return stringTemplate(f, nb, depth+1)
			}
		}
		return nil, fmt.Errorf("%s: %s is not a constant, a field, a concatenation or a template call", fn, v)
	}
	for _, instr := range fn.Blocks[0].Instrs {
		if r, ok := instr.(*ssa.Return); ok && len(r.Results) == 1 {
			return eval(r.Results[0])
		}
	}
	return nil, fmt.Errorf("%s does not return one string", fn)
}

func constStringArgs(fn *ssa.Function, callee string, arg int) []string {
	var out []string
	for _, b := range fn.Blocks {
		for _, instr := range b.Instrs {
			c, ok := instr.(ssa.CallInstruction)
			if !ok {
				continue
			}
			f := c.Common().StaticCallee()
			if f == nil || f.String() != callee || len(c.Common().Args) <= arg {
				continue
			}
			if k, ok := c.Common().Args[arg].(*ssa.Const); ok && k.Value != nil && k.Value.Kind() == constant.String {
				out = append(out, constant.StringVal(k.Value))
			}
		}
	}
	return out
}

type strQuery struct {
	label string
	smt   string
	vars  []string
}

func runStringQuery(q strQuery) (string, map[string]string, float64) {
	t0 := time.Now()
	cmd := exec.Command("cvc5", "--strings-exp", "--produce-models", "--tlimit=60000", "--lang=smt2")
	var get string
	if len(q.vars) > 0 {
		get = "(get-value (" + strings.Join(q.vars, " ") + "))\n"
	}
	cmd.Stdin = strings.NewReader("(set-logic QF_SLIA)\n" + q.smt + "(check-sat)\n" + get)
	out, _ := cmd.CombinedOutput()
	lines := strings.Split(strings.TrimSpace(string(out)), "\n")
	res := "unknown"
	if len(lines) > 0 {
		res = strings.TrimSpace(lines[0])
	}
	model := map[string]string{}
	if res == "sat" {
		parseStrModel(strings.Join(lines[1:], " "), model)
	}
	return res, model, time.Since(t0).Seconds()
}

// parseStrModel parses ((p "a/b") (i "x")).
func parseStrModel(s string, m map[string]string) {
	for {
		i := strings.Index(s, "(")
		if i < 0 {
			return
		}
		s = s[i+1:]
		s = strings.TrimLeft(s, "( ")
		j := strings.IndexByte(s, ' ')
		if j < 0 {
			return
		}
		name := s[:j]
		s = s[j+1:]
		if !strings.HasPrefix(s, `"`) {
			continue
		}
		k := 1
		for k < len(s) {
			if s[k] == '"' {
				if k+1 < len(s) && s[k+1] == '"' {
					k += 2
					continue
				}
				break
			}
			k++
		}
		m[name] = strings.ReplaceAll(s[1:k], `""`, `"`)
		s = s[k+1:]
	}
}

// p7Model: a flag set that validateFlags accepts apart from the given strings (for native replay
// through the VerifH_flags harness).
func p7Model(strs map[string]string) map[string]string {
	m := map[string]string{"qps": "float:1", "numRows": "#x0000000000000001", "payloadSize": "#x0000000000000001", "str:probeType": "noop",
		"project_ok": "true", "instance_name_ok": "true", "database_name_ok": "true", "instanceConfig_ok": "true"}
	for k, v := range strs {
		m["str:"+k] = v
		if strings.Contains(v, "/") {
			m[k+"_ok"] = "false"
		}
	}
	return m
}

// runP7 is the body of the pseudo-entry "P7_flags" of package spanner_prober (main).
func runP7(res *RunResult, prog *ssa.Program, mainPkg *ssa.Package) {
	vf := mainPkg.Func("validateFlags")
	if vf == nil {
		res.Status = "UNSUPPORTED: no validateFlags in " + mainPkg.Pkg.Path()
		return
	}
	// which flag is tested against which literal: every MatchString call reachable from validateFlags
	// through functions of the same package, with the regular expression and the tested string
	// resolved through parameters to (a) a regexp.Compile/MustCompile of a constant - local or
	// package-level - and (b) a load of a flag variable
	type test struct{ lit, flag string }
	var tests []test
	var lits []string
	globalRegex := map[*ssa.Global]string{}
	if ini := mainPkg.Func("init"); ini != nil {
		for _, b := range ini.Blocks {
			for _, instr := range b.Instrs {
				if st, ok := instr.(*ssa.Store); ok {
					if g, ok := st.Addr.(*ssa.Global); ok {
						if l := regexLiteral(st.Val); l != "" {
							globalRegex[g] = l
						}
					}
				}
			}
		}
	}
	var walk func(fn *ssa.Function, bind map[*ssa.Parameter]ssa.Value, depth int)
	subst := func(v ssa.Value, bind map[*ssa.Parameter]ssa.Value) ssa.Value {
		for i := 0; i < 8; i++ {
			switch x := v.(type) {
			case *ssa.Parameter:
				if b, ok := bind[x]; ok {
					v = b
					continue
				}
			case *ssa.ChangeType:
				v = x.X
				continue
			}
			break
		}
		return v
	}
	walk = func(fn *ssa.Function, bind map[*ssa.Parameter]ssa.Value, depth int) {
		if depth > 4 || fn.Blocks == nil {
			return
		}
		for _, b := range fn.Blocks {
			for _, instr := range b.Instrs {
				x, ok := instr.(*ssa.Call)
				if !ok {
					continue
				}
				f := x.Call.StaticCallee()
				if f == nil {
					continue
				}
				switch {
				case f.String() == "(*regexp.Regexp).MatchString":
					rv, sv := subst(x.Call.Args[0], bind), subst(x.Call.Args[1], bind)
					lit := regexLiteral(rv)
					if u, ok := rv.(*ssa.UnOp); ok && lit == "" {
						if g, ok := u.X.(*ssa.Global); ok {
							lit = globalRegex[g]
						}
					}
					name := ""
					if u, ok := sv.(*ssa.UnOp); ok {
						if u2, ok := u.X.(*ssa.UnOp); ok {
							if g, ok := u2.X.(*ssa.Global); ok {
								name = g.Name()
							}
						}
					}
					if lit != "" {
						lits = append(lits, lit)
					}
					tests = append(tests, test{lit, name})
				case f.Pkg == mainPkg && f.Blocks != nil:
					nb := map[*ssa.Parameter]ssa.Value{}
					for i, p := range f.Params {
						if i < len(x.Call.Args) {
							nb[p] = subst(x.Call.Args[i], bind)
						}
					}
					walk(f, nb, depth+1)
				}
			}
		}
	}
	walk(vf, map[*ssa.Parameter]ssa.Value{}, 0)
	if len(lits) == 0 {
		res.Status = "UNSUPPORTED: validateFlags tests no flag against a constant regular expression"
		return
	}
	res.Events = append(res.Events, fmt.Sprintf("regex literals %q; tests %v", lits, tests))
	flagLit := map[string]string{}
	for _, t := range tests {
		if t.lit == "" || t.flag == "" {
			res.Status = "UNSUPPORTED: cannot relate a MatchString call to a constant regular expression and a flag"
			return
		}
		flagLit[t.flag] = t.lit
	}
	need := []string{"project", "instance_name", "database_name", "instanceConfig"}
	for _, f := range need {
		if flagLit[f] == "" {
			res.Findings = append(res.Findings, Finding{Kind: "assert", Label: "C18: accepted flag set whose project/instance/database/instance_config did not pass a regular-expression test", Model: p7Model(map[string]string{f: "x/../y"}), Where: "flag " + f + " is not tested against any regular expression in validateFlags"})
			res.Obligations++
			return
		}
	}
	// formats of the resource-name builders in package prober
	var proberPkg *ssa.Package
	for _, p := range prog.AllPackages() {
		if strings.HasSuffix(p.Pkg.Path(), "spanner_prober/prober") {
			proberPkg = p
		}
	}
	// the database resource name as a template: constant segments and the option fields, whatever
	// mix of fmt.Sprintf("...%s..."), string concatenation and helper methods builds it
	var tmpl []tmplPart
	if proberPkg != nil {
		if tn := proberPkg.Type("ProberOptions"); tn != nil {
			if fn := prog.LookupMethod(types.NewPointer(tn.Type()), proberPkg.Pkg, "databaseURI"); fn != nil {
				var terr error
				tmpl, terr = stringTemplate(fn, nil, 0)
				if terr != nil {
					res.Status = "UNSUPPORTED: cannot read the database resource name as a template of constant segments and option fields: " + terr.Error()
					return
				}
			}
		}
	}
	var segs []string
	var order []string
	cur := ""
	for _, p := range tmpl {
		if p.field == "" {
			cur += p.lit
		} else {
			segs = append(segs, cur)
			cur = ""
			order = append(order, p.field)
		}
	}
	segs = append(segs, cur)
	if len(order) != 3 || order[0] != "Project" || order[1] != "Instance" || order[2] != "Database" {
		res.Status = fmt.Sprintf("UNSUPPORTED: database resource name is not built from Project, Instance, Database in this order: %v", order)
		return
	}
	decl := ""
	var tsolver float64
	// (1) every accepted value is free of '/'
	for _, f := range need {
		re, err := regexToSMT(flagLit[f])
		if err != nil {
			res.Status = "UNSUPPORTED: " + err.Error()
			return
		}
		q := strQuery{label: "C18: an accepted " + f + " can contain '/' (extra resource-name segments can be injected)",
			smt: decl + fmt.Sprintf("(declare-const s String)\n(assert (str.in_re s %s))\n(assert (str.contains s \"/\"))\n", re), vars: []string{"s"}}
		r, m, dt := runStringQuery(q)
		tsolver += dt
		res.Queries++
		res.Obligations++
		res.Samples = append(res.Samples, "string query: "+q.label+" -> "+r)
		switch r {
		case "unsat":
			res.Unsat++
			res.Discharged++
		case "sat":
			res.Sat++
			res.Findings = append(res.Findings, Finding{Kind: "assert", Label: "C18: accepted flag set whose project/instance/database/instance_config did not pass a regular-expression test", Model: p7Model(map[string]string{f: m["s"]}), Where: q.label})
		default:
			res.Unknown++
			res.Status = "UNSUPPORTED: string solver " + r + " on " + q.label
		}
	}
	// (2) unique parse of the database resource name built from accepted values
	rp, _ := regexToSMT(flagLit["project"])
	ri, _ := regexToSMT(flagLit["instance_name"])
	rd, _ := regexToSMT(flagLit["database_name"])
	smt := "(declare-const p String)(declare-const i String)(declare-const d String)(declare-const p2 String)(declare-const i2 String)(declare-const d2 String)\n" +
		fmt.Sprintf("(assert (str.in_re p %s))(assert (str.in_re p2 %s))(assert (str.in_re i %s))(assert (str.in_re i2 %s))(assert (str.in_re d %s))(assert (str.in_re d2 %s))\n", rp, rp, ri, ri, rd, rd) +
		fmt.Sprintf("(assert (= (str.++ %s p %s i %s d %s) (str.++ %s p2 %s i2 %s d2 %s)))\n", smtStr(segs[0]), smtStr(segs[1]), smtStr(segs[2]), smtStr(segs[3]), smtStr(segs[0]), smtStr(segs[1]), smtStr(segs[2]), smtStr(segs[3])) +
		"(assert (or (not (= p p2)) (not (= i i2)) (not (= d d2))))\n"
	q := strQuery{label: "C18: two different accepted (project, instance, database) triples yield the same database resource name", smt: smt, vars: []string{"p", "i", "d"}}
	r, m, dt := runStringQuery(q)
	tsolver += dt
	res.Queries++
	res.Obligations++
	res.Samples = append(res.Samples, "string query: "+q.label+" -> "+r)
	switch r {
	case "unsat":
		res.Unsat++
		res.Discharged++
	case "sat":
		res.Sat++
		res.Findings = append(res.Findings, Finding{Kind: "assert", Label: "C18: resource name built from accepted flags has extra path segments", Model: p7Model(map[string]string{"project": m["p"], "instance_name": m["i"], "database_name": m["d"]}), Where: q.label})
	default:
		res.Unknown++
		res.Status = "UNSUPPORTED: string solver " + r + " on " + q.label
	}
	res.SolverS = tsolver
	res.Blocks = len(vf.Blocks)
	for _, b := range vf.Blocks {
		res.Instrs += len(b.Instrs)
	}
	res.Funcs = map[string]int{vf.String(): 1}
	res.Stubs = map[string]int{"regexp (literals translated to SMT-LIB RegLan)": len(lits)}
	res.Reach = map[string]string{"regex literals extracted": "reachable"}
}
