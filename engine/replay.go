package main

import (
	"encoding/json"
	"fmt"
	"os"
	"os/exec"
	"path/filepath"
	"regexp"
	"sort"
	"strings"
	"sync"
)

type replayReq struct {
	job   Job
	kind  string
	label string
	model map[string]string
	strs  map[string]string
	tries int
	obs   map[string]string
}

type replayRes struct {
	path        string
	reproduced  bool
	outcome     string
	err         string
	obsMismatch string
	obsCompared int
}

// ReplayFile is the on-disk counterexample / witness (also read by the native harness runtime).
type ReplayFile struct {
	Entry   string            `json:"entry"`
	Kind    string            `json:"kind"`
	Label   string            `json:"label"`
	Model   map[string]string `json:"model"`
	Strings map[string]string `json:"strings"`
	Flags   []string          `json:"flags"`
	Tries   int               `json:"tries"`
	Dir     string            `json:"dir"`
	Harness string            `json:"harness"`
	Observe map[string]string `json:"observe,omitempty"`
	Prop    string            `json:"prop"`
}

func runReplays(propID string, reqs []replayReq) []replayRes {
	out := make([]replayRes, len(reqs))
	dir := filepath.Join(verifRoot(), "out", "replays", propID)
	os.MkdirAll(dir, 0o755)
	// write files
	for i, q := range reqs {
		entry := q.job.Entry
		if q.job.ReplayEntry != "" {
			entry = q.job.ReplayEntry
		}
		// concrete strings supplied by a string-solver model: "str:<var>" -> id + string table
		if q.strs == nil {
			q.strs = map[string]string{}
		}
		n := 0
		for k, v := range q.model {
			if strings.HasPrefix(k, "str:") {
				n++
				id := 800000 + n
				delete(q.model, k)
				q.model[k[4:]] = fmt.Sprintf("#x%08x", id)
				q.strs[fmt.Sprint(id)] = v
			}
		}
		rf := ReplayFile{Entry: entry, Kind: q.kind, Label: q.label, Model: q.model, Strings: q.strs, Flags: q.job.Flags, Tries: q.tries, Dir: q.job.Dir, Harness: q.job.Harness, Observe: q.obs, Prop: propID}
		b, _ := json.MarshalIndent(rf, "", " ")
		name := fmt.Sprintf("%s-%s-%s.json", q.job.key(), q.kind, shortHash(q.kind+q.label+string(b)))
		out[i].path = filepath.Join(dir, name)
		os.WriteFile(out[i].path, b, 0o644)
	}
	// group: all witnesses of one (dir,harness) in one go test run; every counterexample alone
	type group struct {
		dir, harness string
		idx          []int
	}
	var groups []*group
	wit := map[string]*group{}
	for i, q := range reqs {
		if q.tries < 0 {
			continue
		}
		if q.kind == "witness" {
			k := q.job.Dir + "|" + q.job.Harness + "|" + buildTags(q.job.Flags)
			g := wit[k]
			if g == nil {
				g = &group{dir: q.job.Dir, harness: q.job.Harness}
				wit[k] = g
				groups = append(groups, g)
			}
			g.idx = append(g.idx, i)
		} else {
			groups = append(groups, &group{dir: q.job.Dir, harness: q.job.Harness, idx: []int{i}})
		}
	}
	var wg sync.WaitGroup
	sem := make(chan struct{}, 6)
	for _, g := range groups {
		wg.Add(1)
		go func(g *group) {
			defer wg.Done()
			sem <- struct{}{}
			defer func() { <-sem }()
			var paths []string
			for _, i := range g.idx {
				paths = append(paths, out[i].path)
			}
			isRace := len(g.idx) == 1 && reqs[g.idx[0]].kind == "race"
			outs, err := nativeReplayOpt(g.dir, g.harness, paths, isRace)
			for _, i := range g.idx {
				r := &out[i]
				if err != "" {
					r.err = err
					continue
				}
				o := outs[r.path]
				r.reproduced = o.reproduced
				r.outcome = o.outcome
				if reqs[i].kind == "race" {
					// confirmed iff the race detector reports a race between the two functions of the candidate
					r.reproduced = false
					fa, fb := candFns(reqs[i].label)
					r.outcome = fmt.Sprintf("race detector: %d report(s), none between %s and %s", len(o.races), fa, fb)
					for _, rp := range o.races {
						if reportMatches(rp, fa, fb) {
							r.reproduced = true
							r.outcome = fmt.Sprintf("race detector reports a data race between %s and %s", fa, fb)
						}
					}
				}
				if reqs[i].kind == "witness" && o.reproduced {
					r.obsMismatch, r.obsCompared = compareObserved(reqs[i].obs, o.observed)
				}
			}
		}(g)
	}
	wg.Wait()
	return out
}

type nativeOut struct {
	races      [][2][]string
	reproduced bool
	outcome    string
	observed   string
}

var entryRe = regexp.MustCompile(`(?m)^func (VerifH_\w+)\(\)`)

// nativeReplay compiles the harness into the package under test with a go test overlay and runs
// the replay files through it.  Nothing is written under the repository.
func nativeReplay(dir, harness string, paths []string) (map[string]nativeOut, string) {
	return nativeReplayOpt(dir, harness, paths, false)
}

// normFn brings SSA function names ((*pkg.T).M$1) and runtime names (pkg.(*T).M.func1) to one form (T.M.func1).
func normFn(f string) string {
	f = strings.TrimSuffix(strings.TrimSpace(f), "()")
	f = strings.ReplaceAll(f, "$", ".func")
	f = strings.ReplaceAll(f, "(*", "")
	f = strings.ReplaceAll(f, ")", "")
	f = strings.ReplaceAll(f, "(", "")
	// drop the package path: keep what follows the last '/' and then the first '.'
	if i := strings.LastIndex(f, "/"); i >= 0 {
		f = f[i+1:]
	}
	if i := strings.Index(f, "."); i >= 0 {
		f = f[i+1:]
	}
	return f
}

// raceReports extracts, from race-detector output, the two stacks (normalised function names) of each report.
func raceReports(out string) [][2][]string {
	var reps [][2][]string
	lines := strings.Split(out, "\n")
	for i := 0; i < len(lines); i++ {
		if !strings.Contains(lines[i], "WARNING: DATA RACE") {
			continue
		}
		var stacks [][]string
		for j := i + 1; j < len(lines) && j < i+300 && len(stacks) < 2; j++ {
			l := strings.TrimSpace(lines[j])
			if strings.HasPrefix(l, "==================") {
				break
			}
			if strings.HasPrefix(l, "Read at") || strings.HasPrefix(l, "Write at") || strings.HasPrefix(l, "Previous read at") || strings.HasPrefix(l, "Previous write at") ||
				strings.HasPrefix(l, "Atomic") || strings.HasPrefix(l, "Previous atomic") {
				var st []string
				for k := j + 1; k < len(lines); k++ {
					f := strings.TrimSpace(lines[k])
					if f == "" {
						break
					}
					if strings.HasSuffix(f, ")") && !strings.HasPrefix(f, "/") {
						if strings.HasPrefix(f, "sync/atomic.") {
							st = append(st, "sync/atomic")
						} else {
							st = append(st, normFn(f))
						}
					}
				}
				stacks = append(stacks, st)
			}
		}
		if len(stacks) == 2 {
			reps = append(reps, [2][]string{stacks[0], stacks[1]})
		}
	}
	return reps
}

// candFns extracts the two functions of a race-candidate label "desc: fnA (R) || fnB (W)".
func candFns(label string) (string, string) {
	i := strings.Index(label, ": ")
	if i < 0 {
		return "", ""
	}
	parts := strings.Split(label[i+2:], " || ")
	if len(parts) != 2 {
		return "", ""
	}
	cut := func(x string) string {
		if j := strings.LastIndex(x, " ("); j >= 0 {
			x = x[:j]
		}
		return normFn(x)
	}
	return cut(parts[0]), cut(parts[1])
}

// reportMatches: the race report is between the two functions of the candidate.  The detector
// rebuilds the stack of an access from function-entry events, and a leaf function whose only
// call is the sync/atomic operation (a one-line accessor) does not appear in it: a stack whose
// innermost frame is sync/atomic stands for such an accessor when the other function matches.
func reportMatches(rp [2][]string, fa, fb string) bool {
	in := func(st []string, f string) bool {
		return inStack(st, f) || (len(st) > 0 && st[0] == "sync/atomic" && !inStack(st, fa) && !inStack(st, fb))
	}
	exact := func(i int, f string) bool { return inStack(rp[i], f) }
	return (exact(0, fa) && in(rp[1], fb)) || (exact(1, fa) && in(rp[0], fb)) ||
		(exact(0, fb) && in(rp[1], fa)) || (exact(1, fb) && in(rp[0], fa))
}

func inStack(st []string, f string) bool {
	for _, x := range st {
		if x == f {
			return true
		}
	}
	return false
}

func nativeReplayOpt(dir, harness string, paths []string, race bool) (map[string]nativeOut, string) {
	tags := "verif"
	for _, pth := range paths {
		if b, err := os.ReadFile(pth); err == nil {
			var rf ReplayFile
			if json.Unmarshal(b, &rf) == nil {
				tags = buildTags(rf.Flags)
			}
		}
	}
	pkgDir := filepath.Join(repoRoot(), dir)
	scratch, err := os.MkdirTemp("", "verif.replay.")
	if err != nil {
		return nil, err.Error()
	}
	defer os.RemoveAll(scratch)
	modfile := scratchModfile(moduleRoot(pkgDir), scratch)
	pkgName, err := packageName(pkgDir)
	if err != nil {
		return nil, err.Error()
	}
	hdir := filepath.Join(verifRoot(), "harness", harness)
	files := harnessFiles(pkgDir, hdir, pkgName)
	// replay test + entry table
	rt, _ := os.ReadFile(filepath.Join(verifRoot(), "harness", "rt", "zz_verif_replay_test.go"))
	files[filepath.Join(pkgDir, "zz_verif_replay_test.go")] = []byte(strings.Replace(string(rt), "package verifrt", "package "+pkgName, 1))
	var entries []string
	usesNow, usesLock, usesAtomic := false, false, false
	for p, b := range files {
		if strings.HasSuffix(p, "_test.go") {
			continue
		}
		for _, m := range entryRe.FindAllStringSubmatch(string(b), -1) {
			entries = append(entries, m[1])
		}
		if strings.Contains(string(b), "func verifNow()") {
			usesNow = true
		}
		if strings.Contains(string(b), "func verifLock") {
			usesLock = true
		}
		if strings.Contains(string(b), "func verifAtomicLoadU32") {
			usesAtomic = true
		}
	}
	sort.Strings(entries)
	var sb strings.Builder
	sb.WriteString("//go:build verif && go1.21\n\npackage " + pkgName + "\n\nvar verifEntries = map[string]func(){\n")
	for _, e := range entries {
		fmt.Fprintf(&sb, "\t%q: %s,\n", e, e)
	}
	sb.WriteString("}\n")
	files[filepath.Join(pkgDir, "zz_verif_entries.go")] = []byte(sb.String())
	// line-preserving source rewrites for native replay only: the virtual clock and lock hooks
	srcs, _ := filepath.Glob(filepath.Join(pkgDir, "*.go"))
	replace := map[string]string{}
	typed := map[string]string{}
	for _, rw := range loadRewrites(hdir) {
		if rw.Typed {
			var terr string
			typed, terr = typedConnRewrite(pkgDir, modfile, "verif", nil)
			if terr != "" {
				return nil, terr
			}
		}
	}
	for _, src := range srcs {
		base := filepath.Base(src)
		if strings.HasSuffix(base, "_test.go") {
			replace[src] = "" // mask the package's own tests
			continue
		}
		if !usesNow && !usesLock && !usesAtomic && len(loadRewrites(hdir)) == 0 {
			continue
		}
		b, err := os.ReadFile(src)
		if err != nil {
			continue
		}
		s := string(b)
		ns := s
		if t, ok := typed[src]; ok {
			ns = t
		}
		if usesNow {
			ns = strings.ReplaceAll(ns, "time.Now()", "verifNow()")
		}
		if usesLock {
			ns = lockCallRe.ReplaceAllString(ns, "verifLock(&$1)")
			ns = rlockCallRe.ReplaceAllString(ns, "verifRLock(&$1)")
		}
		if usesAtomic {
			ns = strings.ReplaceAll(ns, "atomic.LoadUint32(", "verifAtomicLoadU32(")
			ns = strings.ReplaceAll(ns, "atomic.LoadInt32(", "verifAtomicLoadI32(")
		}
		for _, rw := range loadRewrites(hdir) {
			if rw.File == base && !rw.Typed {
				if rw.Regex {
					ns = regexp.MustCompile(rw.From).ReplaceAllString(ns, rw.To)
				} else {
					ns = strings.ReplaceAll(ns, rw.From, rw.To)
				}
			}
		}
		if ns != s {
			// keep the "time" import used
			if !strings.Contains(ns, "time.") && strings.Contains(s, "\"time\"") {
				ns = strings.Replace(ns, "\"time\"", "_ \"time\"", 1)
			}
			files[src] = []byte(ns)
		}
	}
	for p, b := range files {
		real := filepath.Join(scratch, strings.ReplaceAll(strings.TrimPrefix(p, "/"), "/", "__"))
		os.WriteFile(real, b, 0o644)
		replace[p] = real
	}
	ob, _ := json.Marshal(map[string]interface{}{"Replace": replace})
	ovPath := filepath.Join(scratch, "overlay.json")
	os.WriteFile(ovPath, ob, 0o644)
	targs := []string{"test", "-tags=" + tags, "-modfile=" + modfile, "-vet=off", "-count=1", "-timeout=300s", "-run", "^TestVerifReplay$", "-overlay", ovPath, "-v"}
	if race {
		// no inlining in the package under test: the race detector rebuilds the stack of the
		// earlier access from function-entry events, so an inlined accessor (a one-line atomic
		// wrapper) would be missing from the report and the pair could not be matched
		targs = append(targs, "-race", "-gcflags=-l")
	}
	targs = append(targs, ".")
	cmd := exec.Command("go", targs...)
	cmd.Dir = pkgDir
	cmd.Env = append(os.Environ(), "GOFLAGS=-mod=mod", "GOPROXY=off", "GOSUMDB=off", "GOTOOLCHAIN=local", "VERIF_REPLAY="+strings.Join(paths, ":"))
	b, _ := cmd.CombinedOutput()
	res := map[string]nativeOut{}
	cur := ""
	sawFile := false
	for _, l := range strings.Split(string(b), "\n") {
		l = strings.TrimSpace(l)
		switch {
		case strings.HasPrefix(l, "VERIF-FILE "):
			cur = strings.TrimPrefix(l, "VERIF-FILE ")
			sawFile = true
			res[cur] = nativeOut{}
		case strings.HasPrefix(l, "VERIF-OUTCOME "):
			o := res[cur]
			o.outcome = strings.TrimPrefix(l, "VERIF-OUTCOME ")
			res[cur] = o
		case strings.HasPrefix(l, "VERIF-OBSERVED"):
			o := res[cur]
			o.observed = strings.TrimSpace(strings.TrimPrefix(l, "VERIF-OBSERVED"))
			res[cur] = o
		case strings.HasPrefix(l, "VERIF-REPRODUCED"):
			o := res[cur]
			o.reproduced = true
			res[cur] = o
		case strings.HasPrefix(l, "VERIF-ERROR"):
			o := res[cur]
			o.outcome = l
			res[cur] = o
		}
	}
	if !sawFile {
		return nil, "native replay did not run: " + lastLines(string(b), 12)
	}
	if race {
		if f := os.Getenv("VERIF_RACE_LOG"); f != "" {
			os.WriteFile(f, b, 0o644)
		}
		reps := raceReports(string(b))
		for k, o := range res {
			o.races = reps
			res[k] = o
		}
	}
	return res, ""
}

var lockCallRe = regexp.MustCompile(`\b([A-Za-z_][A-Za-z0-9_.]*\.mu)\.Lock\(\)`)
var rlockCallRe = regexp.MustCompile(`\b([A-Za-z_][A-Za-z0-9_.]*\.mu)\.RLock\(\)`)

// compareObserved checks the values the executor predicted under the witness model against the
// values the native run observed.
func compareObserved(pred map[string]string, observed string) (string, int) {
	n := 0
	for _, f := range strings.Fields(observed) {
		i := strings.LastIndex(f, "=")
		if i < 0 {
			continue
		}
		name, val := f[:i], f[i+1:]
		p, ok := pred[name]
		if !ok {
			return fmt.Sprintf("%s observed natively but not predicted", name), n
		}
		u, ok := modelUint(p)
		if !ok {
			return fmt.Sprintf("%s: cannot parse predicted %s", name, p), n
		}
		if fmt.Sprint(u) != val {
			return fmt.Sprintf("%s predicted %d, real build gave %s", name, u, val), n
		}
		n++
	}
	if n != len(pred) {
		return fmt.Sprintf("%d values predicted, %d observed natively", len(pred), n), n
	}
	return "", n
}

func cmdReplay(args []string) int {
	if len(args) < 1 {
		fmt.Println("usage: symgo replay <file>")
		return 2
	}
	if abs, err := filepath.Abs(args[0]); err == nil {
		args[0] = abs
	}
	b, err := os.ReadFile(args[0])
	if err != nil {
		fmt.Println(err)
		return 2
	}
	var rf ReplayFile
	if err := json.Unmarshal(b, &rf); err != nil {
		fmt.Println(err)
		return 2
	}
	outs, e := nativeReplayOpt(rf.Dir, rf.Harness, []string{args[0]}, rf.Kind == "race")
	if e != "" {
		fmt.Println("replay failed:", e)
		return 2
	}
	o := outs[args[0]]
	if rf.Kind == "race" {
		// a race candidate replays under the race detector: reproduced iff it reports the pair
		fa, fb := candFns(rf.Label)
		o.reproduced = false
		o.outcome = fmt.Sprintf("race detector: %d report(s), none between %s and %s", len(o.races), fa, fb)
		for _, rp := range o.races {
			if reportMatches(rp, fa, fb) {
				o.reproduced = true
				o.outcome = fmt.Sprintf("race detector reports a data race between %s and %s", fa, fb)
			}
		}
	}
	fmt.Printf("entry=%s kind=%s label=%q outcome=%s reproduced=%v\n", rf.Entry, rf.Kind, rf.Label, o.outcome, o.reproduced)
	if o.reproduced {
		return 1
	}
	return 0
}

// rewriteRule is a line-preserving textual rewrite applied to a source file of the package under
// test FOR NATIVE REPLAY ONLY (the symbolic run redirects the same calls by intrinsics): it lets
// the harness summaries of opaque runtime objects stand in natively as well.
type rewriteRule struct {
	File  string `json:"file"`
	From  string `json:"from"`
	To    string `json:"to"`
	Regex bool   `json:"regex"`
	Typed bool   `json:"typed"` // run the go/types driven rewrite of typedrw.go on the package
}

func loadRewrites(hdir string) []rewriteRule {
	b, err := os.ReadFile(filepath.Join(hdir, "rewrite.json"))
	if err != nil {
		return nil
	}
	var rs []rewriteRule
	if err := json.Unmarshal(b, &rs); err != nil {
		panic("rewrite.json: " + err.Error())
	}
	return rs
}
