package main

import "fmt"

const gcp = "grpcgcp"

var commonAssume = []string{
	"go/ssa (x/tools v0.29.0) SSA of the working tree is the semantics of the code; the symgo executor, cvc5 1.0.3 and z3 5.1.0 are trusted",
	"bounded claim: holds for the stated universe / unrolling / value ranges only (coverage.bounds)",
	"append follows Go's aliasing semantics in the grpcgcp and e2e-checksum jobs: in place when cap suffices, otherwise a new array with ANY capacity in [needed, needed+6] (solver variable); the multiendpoint and prober jobs use copy-on-append", "environment stubs of DESIGN.md section 4: fake balancer.ClientConn/SubConn (NewSubConn fails on an empty address list or when the persistent failNew flag is set), ghost mutexes, virtual clock (time.Now redirected to the harness clock), logging/formatting opaque, status.Code summarised on the harness error kinds, getAffinityKeysFromMessage summarised on the harness message type (validated by C11)",
}

var gbBounds = map[string]string{
	"connections":  "quick: 2 existing + 2 fresh identities, plus one retired connection per slot; thorough additionally 3 existing + 2 fresh",
	"slots":        "quick: 3 subConnRef objects; thorough additionally 4; channel list = any prefix of them",
	"keys":         "quick: 2 symbolic bound/unbound keys, thorough additionally 3; + 1 key in no table; 0..2 keys per message",
	"pickers":      "the picker the call is issued on (published or stale, any duplicate-free list of listed slots) and one other published picker",
	"config":       "minSize, maxSize, watermark, unresponsive_calls, unresponsive_detection_ms full 32-bit symbolic (>=1 where the balancer's defaults guarantee it); fallback symbolic",
	"streams":      "0 <= streamsCnt < 2^30 per slot",
	"clock":        "instants in [0, 2^61) ns",
	"loop unroll":  "code under test: 6 (unwinding assertion on); harness loops: 64",
	"interference": "pattern P2: one full havoc-under-invariant between Pick and its completion; round-robin wait: 0..2 havocs while blocked",
}

func caseJobs(entry string, dims map[string][]int, order []string, extra ...string) []Job {
	jobs := []Job{{Dir: gcp, Harness: gcp, Entry: entry, Flags: append([]string{}, extra...)}}
	for _, d := range order {
		var next []Job
		for _, j := range jobs {
			for _, v := range dims[d] {
				nj := j
				nj.Flags = append(append([]string{}, j.Flags...), fmt.Sprintf("%s=%d", d, v))
				next = append(next, nj)
			}
		}
		jobs = next
	}
	return jobs
}

func cat(js ...[]Job) []Job {
	var out []Job
	for _, j := range js {
		out = append(out, j...)
	}
	return out
}

func one(entry string, flags ...string) []Job {
	return []Job{{Dir: gcp, Harness: gcp, Entry: entry, Flags: flags}}
}

func allProps() []Prop {
	pick := caseJobs("VerifH_pick", map[string][]int{"method": {0, 1, 2, 3}, "stale": {0, 1}}, []string{"method", "stale"})
	pickRR := caseJobs("VerifH_pick", map[string][]int{"method": {0, 2, 3}, "stale": {0}}, []string{"method", "stale"}, "rr")
	done := caseJobs("VerifH_done", map[string][]int{"method": {0, 1, 2, 3}, "on": {0, 1, 2}}, []string{"method", "on"}, "havoc")
	donep3 := caseJobs("VerifH_donep3", map[string][]int{"method": {0}, "stale": {0}, "on": {0, 1, 2}}, []string{"method", "stale", "on"})
	usc := caseJobs("VerifH_usc", map[string][]int{"arg_sc": {0, 1, 2, 3}}, []string{"arg_sc"})
	uccs := one("VerifH_uccs")
	usc2 := one("VerifH_usc2")
	usc2[0].TmoMs = 60000
	initJ := one("VerifH_init")
	rr := caseJobs("VerifH_rr", map[string][]int{"interference": {0, 1, 2}}, []string{"interference"}, "rr", "atomicHavoc")
	for i := range rr {
		rr[i].Unroll = 5
		rr[i].NoReplay = true
	}
	rrwin := caseJobs("VerifH_rrwin", map[string][]int{"k": {1, 2}}, []string{"k"}, "rr")
	rrwin = append(rrwin, Job{Dir: gcp, Harness: gcp, Entry: "VerifH_rrwin", Flags: []string{"rr", "k=1", "atomicHavoc"}})
	grow := caseJobs("VerifH_grow", map[string][]int{"interference": {0, 1}}, []string{"interference"})
	cnt := one("VerifH_cnt")
	errpick := one("VerifH_errpick")
	reserr := one("VerifH_reserr")
	keysJobs := cat(
		caseJobs("VerifH_keys", map[string][]int{"msgKind": {0}, "nseg": {1, 2, 3, 4}}, []string{"msgKind", "nseg"}, "realKeys"),
		caseJobs("VerifH_keys", map[string][]int{"msgKind": {1, 2, 3}, "nseg": {1, 2}}, []string{"msgKind", "nseg"}, "realKeys"),
		one("VerifH_keysloc", "realKeys"))
	// thorough tier: the same operations over the larger universe (3+2 connections, 4 slots, 3 keys)
	big := func(js []Job) []Job {
		var out []Job
		for _, j := range js {
			nj := j
			nj.Flags = append(append([]string{}, j.Flags...), "big")
			nj.Tier = "thorough"
			nj.TmoMs = 120000
			out = append(out, nj)
		}
		return out
	}
	uscB := big(caseJobs("VerifH_usc", map[string][]int{"arg_sc": {0, 1, 2, 3, 4}}, []string{"arg_sc"}))
	doneB := big(caseJobs("VerifH_done", map[string][]int{"method": {0, 1, 2, 3}, "on": {0, 1, 2, 3}}, []string{"method", "on"}, "havoc"))
	pickB, pickRRB, uccsB, rrB, rrwinB, growB, reserrB, errpickB := big(pick), big(pickRR), big(uccs), big(rr), big(rrwin), big(grow), big(reserr), big(errpick)
	usc, done, pick, pickRR, uccs = cat(usc, uscB), cat(done, doneB), cat(pick, pickB), cat(pickRR, pickRRB), cat(uccs, uccsB)
	rr, rrwin, grow, reserr, errpick = cat(rr, rrB), cat(rrwin, rrwinB), cat(grow, growB), cat(reserr, reserrB), cat(errpick, errpickB)
	allGb := cat(initJ, cnt, usc, uccs, reserr, errpick, pick, pickRR, done, donep3, rr, rrwin, grow)
	const me = "grpcgcp/multiendpoint"
	meBounds := map[string]string{
		"endpoints":  "universe {A,B,C} + one unknown name; lists of 0..3 distinct names",
		"durations":  "recovery timeout and switching delay symbolic in [0, 2^40) ns, including 0, r<d, r>d, r==d",
		"timers":     "step harness: one live recovery timer per recovering endpoint; quick: 0..1 pending delayed switch, and (timer-firing step) 0..1 orphan timer, i.e. the live timer of an endpoint object that was removed from the list, possibly with an endpoint of the same name listed again; thorough additionally 0..2 pending delayed switches and the orphan timer in every step; live timers fire in due order, equal due times in any order; variant firestopped: an already expired recovery timer whose Stop() came too late still runs its callback",
		"clock":      "strictly increasing per timeNow call; instants < 2^50",
		"k-step":     "real constructor + 1 (quick) / 2 (thorough) fully symbolic operations, initial list a prefix of A,B,C (by symmetry of names)",
		"loop unroll": "6",
	}
	var meJobs []Job
	addStep := func(fl []string) {
		// quick: at most one pending delayed switch and no orphan timer ("lean"); thorough: also the full pre-state
		meJobs = append(meJobs, Job{Dir: me, Harness: "multiendpoint", Entry: "VerifH_mestep", Flags: append(append([]string{}, fl...), "lean"), TmoMs: 60000})
		meJobs = append(meJobs, Job{Dir: me, Harness: "multiendpoint", Entry: "VerifH_mestep", Flags: fl, TmoMs: 120000, Tier: "thorough"})
	}
	for _, o := range []int{0, 1, 2} {
		for _, rz := range []int{0, 1} {
			for _, dz := range []int{0, 1} {
				fl := []string{fmt.Sprintf("op=%d", o), fmt.Sprintf("rz=%d", rz), fmt.Sprintf("dz=%d", dz)}
				if o == 1 {
					for _, ln := range []int{0, 1, 2, 3} {
						addStep(append(append([]string{}, fl...), fmt.Sprintf("ln=%d", ln)))
					}
				} else if o == 2 && rz == 1 && dz == 1 {
					// no recovery timeout and no switching delay: no timer exists in any state, nothing to fire
				} else {
					addStep(fl)
				}
			}
		}
	}
	for _, dz := range []int{0, 1} {
		meJobs = append(meJobs, Job{Dir: me, Harness: "multiendpoint", Entry: "VerifH_mestep", Flags: []string{"op=2", "rz=0", fmt.Sprintf("dz=%d", dz), "firestopped"}, TmoMs: 60000})
	}
	// quick tier too: the timer of a removed endpoint object fires while an endpoint of the same name may be listed again
	for _, dz := range []int{0, 1} {
		meJobs = append(meJobs, Job{Dir: me, Harness: "multiendpoint", Entry: "VerifH_mestep", Flags: []string{"op=2", "rz=0", fmt.Sprintf("dz=%d", dz), "lean", "orphan"}, TmoMs: 60000, Tier: "quick"})
	}
	for _, n0 := range []int{0, 1, 2, 3} {
		meJobs = append(meJobs, Job{Dir: me, Harness: "multiendpoint", Entry: "VerifH_me", Flags: []string{fmt.Sprintf("n0=%d", n0), "steps=1"}, Tier: "quick"})
		meJobs = append(meJobs, Job{Dir: me, Harness: "multiendpoint", Entry: "VerifH_me", Flags: []string{fmt.Sprintf("n0=%d", n0), "steps=2"}, Tier: "thorough", TmoMs: 120000})
	}
	ckBounds := map[string]string{"payload": "standard encoding of 0..8 (quick) / 0..16 (thorough) arbitrary bytes (so: encodings that themselves start with a complete checksum field); all 2^32 checksum values; two Marshal calls in a row and one Marshal call nested in another (independence of calls); one 5000-byte payload of concrete content (VerifH_ckbig); the package initialiser of the package under test is executed", "loop unroll": "20"}
	ckJobs := []Job{{Dir: "e2e-checksum", Harness: "e2e-checksum", Entry: "VerifH_ck", Unroll: 24, Flags: []string{"runInit"}}, {Dir: "e2e-checksum", Harness: "e2e-checksum", Entry: "VerifH_ckbig", Unroll: 5100, Flags: []string{"runInit"}}}
	keysBounds := map[string]string{
		"type family": "vTop{Id string; Mid *vMid; Mids []*vMid; Leaf vLeaf}, vMid{Key string; In *vLeaf; Items []*vLeaf; Vals []vLeaf; Names []string; Nums []int64; Any interface{} (nil | string | *vLeaf | vLeaf); M map[string]string}, vLeaf{Name string; Num int64; Flag bool; hidden string}; every pointer possibly nil; slices of 0..2; plus nil / string / []string messages, the harness message type and generated pb.AffinityConfig / pb.MethodConfig",
		"locator":     "path of 1..4 segments, each a symbolic choice among the field names in either case, an unknown name, the empty segment (strings.Split is exercised separately on 7 constant locators)",
		"loop unroll": "6",
	}
	icptJobs := cat(one("VerifH_unary"), one("VerifH_stream", "steps=4"), one("VerifH_streamwait"), caseJobs("VerifH_streamconc", map[string][]int{"dir": {1, 2}}, []string{"dir"}), one("VerifH_streamblock"))
	icptJobs[2].NoReplay = true // natively the receiver would block in the real cond.Wait: no sender goroutine in the replay
	icptBounds := map[string]string{"calls": "any sequence of up to 4 calls out of SendMsg/Header/Trailer/CloseSend/Context/RecvMsg-after-first-send from one goroutine; creation succeeding or failing", "interleaving": "one receiver blocked in cond.Wait + one sender running the real SendMsg while it is blocked (or nobody: context ends); on an existing stream: the real SendMsg inline while RecvMsg is inside the underlying stream, and vice versa; lock discipline of ClientStream/initStreamErr as lockset obligations", "options": "0..2 call options", "loop unroll": "6"}
	var gmeQuick, gmeAll []Job
	for _, in := range []int{0, 1, 2} {
		for _, ud := range []int{0, 1} {
			for _, ur := range []int{0, 1} {
				for _, udef := range []int{0, 1, 2} {
					j := Job{Dir: gcp, Harness: gcp, Entry: "VerifH_gme", Flags: []string{fmt.Sprintf("init=%d", in), fmt.Sprintf("ud=%d", ud), fmt.Sprintf("ur=%d", ur), fmt.Sprintf("udef=%d", udef)}, TmoMs: 60000}
					if in != 0 {
						j.Tier = "thorough"
					}
					gmeAll = append(gmeAll, j)
					if in == 0 {
						gmeQuick = append(gmeQuick, j)
					}
				}
			}
		}
	}
	gmeNew := caseJobs("VerifH_gmenew", map[string][]int{"bad": {0, 1, 2}}, []string{"bad"})
	gmeNotify := caseJobs("VerifH_gmenotify", map[string][]int{"flip0": {0, 1, 2}, "flip1": {0, 1, 2}}, []string{"flip0", "flip1"})
	gmeJobs := cat(gmeAll, gmeNew, gmeNotify, caseJobs("VerifH_gmemonitor", map[string][]int{"ep": {0, 1, 2}}, []string{"ep"}), one("VerifH_gmep3"), caseJobs("VerifH_gmenames", map[string][]int{"defaultIsEmptyName": {0, 1}}, []string{"defaultIsEmptyName"}))
	gmeBounds := map[string]string{"endpoints": "3 endpoint names", "multiendpoints": "names default/read (+ one name without options, + one unknown name in RPC contexts); lists of 0..2 distinct endpoints", "initial configuration": "quick: default=[a,b], read=[b]; thorough also default=[a] alone and default=[a,b], read=[c,a]", "updates": "one fully symbolic UpdateMultiEndpoints (which MultiEndpoints are present, their lists, the default name, a dial failing at a symbolic position), then RPCs with 4 contexts, Invoke/NewStream, Close (close errors symbolic)", "timers": "recovery timeout and switching delay 0 (the timed behaviour is C13/C14)", "loop unroll": "6"}
	gmeAssume := append(append([]string{}, commonAssume...), "*grpc.ClientConn is opaque: GetState/Close/Invoke/NewStream are harness summaries over ghost {ready, closed}; context.WithCancel is a harness summary (ghost spawn/cancel pairs stand for monitor goroutines); `go mc.monitor` is recorded; notify is exercised directly and the real monitor loop is run (VerifH_gmemonitor) against a pool whose state may change between any two reads, with WaitForStateChange summarised as 'returns at once if the pool is not in the given state, else sleeps'; protojson.Marshal and grpc.With* options are opaque", "'within bounded time' after a real connectivity change is the gRPC runtime's WaitForStateChange: not covered")
	pb := "spanner_prober/prober"
	pbJobs := []Job{
		{Dir: pb, Harness: "prober", Entry: "VerifH_backoff", Logic: "QF_FPBV", Unroll: 10, TmoMs: 120000},
		{Dir: pb, Harness: "prober", Entry: "VerifH_backoffconst", Logic: "QF_FPBV", Unroll: 12, TmoMs: 120000},
		{Dir: pb, Harness: "prober", Entry: "VerifH_interval", Logic: "QF_FPBV"},
		{Dir: pb, Harness: "prober", Entry: "VerifH_t4t7", Logic: "QF_UFBV", NoReplay: true},
		{Dir: pb, Harness: "prober", Entry: "VerifH_t4t7c"},
		{Dir: pb, Harness: "prober", Entry: "VerifH_uri", Unroll: 8},
		{Dir: pb, Harness: "prober", Entry: "VerifH_payload", Flags: []string{"size=0", "size2=3"}},
		{Dir: pb, Harness: "prober", Entry: "VerifH_payload", Flags: []string{"size=3", "size2=0"}},
		{Dir: "spanner_prober", Harness: "spanner_prober", Entry: "VerifH_flags", Logic: "QF_UFFPBV", NoReplay: true},
		{Dir: "spanner_prober", Harness: "spanner_prober", Entry: "VerifH_flags", Logic: "QF_UFFPBV", NoReplay: true, Flags: []string{"ptTable"}},
		{Dir: "spanner_prober", Harness: "spanner_prober", Entry: "P7_flags", NoReplay: true, ReplayEntry: "VerifH_flags"},
	}
	pbBounds := map[string]string{
		"backoff":     "0 < base <= max < 2^53 ns (exact int<->float64 region), max <= 25*base (at most 8 multiplications by 1.5; covers the deployed 200ms/5s), retries in [0, 2^62); the deployed constants for every retry count; unwinding assertion at 10/12",
		"headers":     "header and trailer metadata each nil / without the key / with 0..2 entries; entries arbitrary strings (HasPrefix, TrimPrefix, ParseInt as uninterpreted functions of the string)",
		"flags":       "all flag values symbolic (strings as opaque ids, qps any float64 incl. NaN/Inf, ints 64-bit); the regular expressions are the literals found in validateFlags' SSA, translated to SMT-LIB RegLan and decided by cvc5 --strings-exp; the database-name format is the Sprintf constant of (*ProberOptions).databaseURI",
		"payload":     "two payloads in a row, sizes (0,3) and (3,0); rand.Read yields arbitrary bytes; sha256 uninterpreted (ghost: the digest returned comes from a hash object that was written exactly the payload, once)",
		"loop unroll": "6 unless stated",
	}
	raceJobs := cat(
		caseJobs("VerifH_race", map[string][]int{"pair": {0, 1, 2, 3, 4, 5, 6, 8}}, []string{"pair"}),
		[]Job{{Dir: gcp, Harness: gcp, Entry: "VerifH_race", Flags: []string{"pair=7", "rr"}}, {Dir: gcp, Harness: gcp, Entry: "VerifH_race", Flags: []string{"pair=9", "rr"}}, {Dir: gcp, Harness: gcp, Entry: "VerifH_race", Flags: []string{"pair=10", "rr"}}},
		caseJobs("VerifH_racegme", map[string][]int{"pair": {0, 1, 2, 3, 4, 5, 6, 7}}, []string{"pair"}),
		[]Job{{Dir: me, Harness: "multiendpoint", Entry: "VerifH_raceme", TmoMs: 60000}})
	for i := range raceJobs {
		raceJobs[i].NoReplay = true
	}
	raceBounds := map[string]string{"pairs": "balancer: Pick||state report, Pick||Pick, Done||state report, Done||Done, Done||Pick, Pick||resolver update, two round-robin BIND picks from one Inv_gb state; GCPMultiEndpoint: RPC routing||UpdateMultiEndpoints, RPC||monitor notify, notify||Update, GCPConfig||Update, RPC||RPC; multiEndpoint: any two of Current/SetEndpointAvailability/SetEndpoints/timer closure from one Inv_me state", "happens-before": "mutexes, atomics and object freshness only; other edges are not modelled (can only add candidates)", "confirmation": "a candidate is reported only if `go test -race` on the two operations in two goroutines from the model's pre-state reports a race between the same two functions (package under test built without inlining; a report stack whose innermost frame is sync/atomic stands for a one-line atomic accessor, which the detector leaves out of the stack)"}
	return []Prop{
		{ID: "C10", Jobs: raceJobs, Races: true, Level: "other", Assume: append(append([]string{}, commonAssume...), "accesses inside stubbed calls (gRPC runtime, logging) are invisible", "threading contract: balancer callbacks serialized; picks and completion callbacks on any goroutine"), Bounds: raceBounds},
		{ID: "C18", Jobs: pbJobs, Panics: true, Assume: append(append([]string{}, commonAssume...), "float64 arithmetic is IEEE-754 binary64 round-to-nearest-even in the solver (QF_FPBV); float64->int64 conversion out of range is treated as unspecified", "NOT covered: the regexp engine itself (only the literals are checked), SHA-256 and CRC arithmetic, ratios max/base > 25, base >= 2^53 ns"), Bounds: pbBounds},
		{ID: "C12", Jobs: icptJobs, Panics: true, Progress: true, Lockset: true, Assume: commonAssume, Bounds: icptBounds},
		{ID: "C15", Jobs: gmeJobs, Panics: true, Assume: gmeAssume, Bounds: gmeBounds},
		{ID: "C16", Jobs: gmeJobs, Panics: true, Assume: gmeAssume, Bounds: gmeBounds},
		{ID: "C17", Jobs: cat(initJ, uccs, gmeQuick[6:7], caseJobs("VerifH_parse", map[string][]int{"doc": {0, 1, 2, 3, 4, 5, 6, 7, 8, 9, 10, 11, 12, 13}}, []string{"doc"})), Assume: append(append([]string{}, commonAssume...), "proto.Clone is modelled as a structural deep copy of the exported fields of the message object graph", "the JSON parser itself (protojson.Unmarshal behind ParseConfig) is reflection-driven library code outside the executor: the symbolic run replaces it by a summary over a table of 14 concrete documents (well-formed, malformed, unknown field, wrong type, original proto field names, enum names, trailing garbage); the witness replay runs the REAL parser on the same document and compares every observed value, so the table is validated against the real parser on every check. Claimed for ParseConfig: it accepts exactly what the parser accepts, hands it the caller's bytes once and unchanged without DiscardUnknown/AllowPartial, and returns a GCPBalancerConfig holding exactly the document's content. NOT claimed: the parser's behaviour on documents outside the table"), Bounds: map[string]string{"config": "ApiConfig present or nil, ChannelPool present or nil, all scalars full-width symbolic, 0..2 method entries x 0..2 names (symbolic strings, possibly equal), affinity section present or nil per entry; a second resolver update with another symbolic configuration", "minSize": "<= 3 (at most 4 connections at start)", "loop unroll": "6"}},
		{ID: "C11", Jobs: keysJobs, Panics: true, Assume: append(append([]string{}, commonAssume...), "package reflect is modelled by intrinsics (ValueOf, Kind, Elem, FieldByName, Len, Index, String) over the symbolic heap following its documented semantics; strings.Split/Title are applied to constants", "types outside the bounded family (embedded pointer-to-struct fields, arrays, pointer-to-pointer) and locators needing Unicode title-casing are not covered"), Bounds: keysBounds},
		{ID: "C19", Jobs: ckJobs, Panics: true, Assume: append(append([]string{}, commonAssume...), "crc32.MakeTable/Checksum are an uninterpreted function of (polynomial, exact byte slice): the arithmetic of CRC32C (stdlib, partly assembly) is not encoded", "the inner codec is a harness fake returning arbitrary bytes: 'decodes to an equal message' inside the protobuf runtime is reduced to 'a conforming parser (real protowire.ConsumeField) skips exactly the 6-byte prefix'"), Bounds: ckBounds},
		{ID: "C13", Jobs: meJobs, Panics: true, Assume: commonAssume, Bounds: meBounds},
		{ID: "C14", Jobs: meJobs, Assume: commonAssume, Bounds: meBounds},
		{ID: "C01", Jobs: cat(usc, uccs, pick, pickRR, done), Assume: commonAssume, Bounds: gbBounds},
		{ID: "C02", Jobs: cat(usc, usc2, uccs, pick, pickRR, done, rr, rrwin, grow), Assume: commonAssume, Bounds: gbBounds},
		{ID: "C03", Jobs: cat(initJ, usc, uccs, pick, done, donep3, grow), Assume: commonAssume, Bounds: gbBounds},
		{ID: "C04", Jobs: cat(cnt, initJ, usc, usc2, errpick, pick, done), Assume: commonAssume, Bounds: gbBounds},
		{ID: "C05", Jobs: cat(allGb, keysJobs), Panics: true, Assume: commonAssume, Bounds: gbBounds},
		{ID: "C06", Jobs: allGb, Progress: true, Assume: commonAssume, Bounds: gbBounds},
		{ID: "C07", Jobs: cat(initJ, usc, done, donep3, []Job{{Dir: gcp, Harness: gcp, Entry: "VerifH_window", TmoMs: 240000, Note: "independent mathematical form of the detection window"}}), Assume: commonAssume, Bounds: gbBounds},
		{ID: "C08", Jobs: cat(usc, pick, pickRR, done), Assume: commonAssume, Bounds: gbBounds},
		{ID: "C09", Jobs: cat(rr, rrwin, pickRR, usc), Lockset: true, Assume: commonAssume, Bounds: gbBounds},
		{ID: "C20", Jobs: cat(initJ, uccs, usc, reserr, done, donep3, caseJobs("VerifH_pick", map[string][]int{"method": {0}, "stale": {0, 1}}, []string{"method", "stale"}), grow), Assume: commonAssume, Bounds: gbBounds},
	}
}
