package main

import "fmt"

const gcp = "grpcgcp"

var commonAssume = []string{
	"go/ssa (x/tools v0.29.0) SSA of the working tree is the semantics of the code; the symgo executor, cvc5 1.0.3 and z3 5.1.0 are trusted",
	"bounded claim: holds for the stated universe / unrolling / value ranges only (coverage.bounds)",
	"environment stubs of DESIGN.md section 4: fake balancer.ClientConn/SubConn (NewSubConn fails on an empty address list or when the persistent failNew flag is set), ghost mutexes, virtual clock (time.Now redirected to the harness clock), logging/formatting opaque, status.Code summarised on the harness error kinds, getAffinityKeysFromMessage summarised on the harness message type (validated by C11)",
}

var gbBounds = map[string]string{
	"connections":  "2 existing + 2 fresh identities, plus one retired connection per slot",
	"slots":        "3 subConnRef objects, channel list = any prefix of them",
	"keys":         "2 symbolic bound/unbound keys + 1 key in no table; 0..2 keys per message",
	"pickers":      "the picker the call is issued on (published or stale, any duplicate-free list of listed slots) and one other published picker",
	"config":       "minSize, maxSize, watermark, unresponsive_calls, unresponsive_detection_ms full 32-bit symbolic (>=1 where the balancer's defaults guarantee it); fallback symbolic",
	"streams":      "0 <= streamsCnt < 2^30 per slot",
	"clock":        "instants in [0, 2^61) ns",
	"loop unroll":  "code under test: 6 (unwinding assertion on); harness loops: 64",
	"interference": "pattern P2: one full havoc-under-invariant between Pick and its completion; round-robin wait: 0..2 havocs while blocked",
}

func caseJobs(entry string, dims map[string][]int, order []string, extra ...string) []Job {
	jobs := []Job{{Dir: gcp, Harness: gcp, Entry: entry, Flags: append([]string{}, extra...)}}
	for _, d := range order {
		var next []Job
		for _, j := range jobs {
			for _, v := range dims[d] {
				nj := j
				nj.Flags = append(append([]string{}, j.Flags...), fmt.Sprintf("%s=%d", d, v))
				next = append(next, nj)
			}
		}
		jobs = next
	}
	return jobs
}

func cat(js ...[]Job) []Job {
	var out []Job
	for _, j := range js {
		out = append(out, j...)
	}
	return out
}

func one(entry string, flags ...string) []Job {
	return []Job{{Dir: gcp, Harness: gcp, Entry: entry, Flags: flags}}
}

func allProps() []Prop {
	pick := caseJobs("VerifH_pick", map[string][]int{"method": {0, 1, 2, 3}, "stale": {0, 1}}, []string{"method", "stale"})
	pickRR := caseJobs("VerifH_pick", map[string][]int{"method": {0, 2, 3}, "stale": {0}}, []string{"method", "stale"}, "rr")
	done := caseJobs("VerifH_done", map[string][]int{"method": {0, 1, 2, 3}, "on": {0, 1, 2}}, []string{"method", "on"}, "havoc")
	usc := caseJobs("VerifH_usc", map[string][]int{"arg_sc": {0, 1, 2, 3}}, []string{"arg_sc"})
	uccs := one("VerifH_uccs")
	initJ := one("VerifH_init")
	rr := caseJobs("VerifH_rr", map[string][]int{"interference": {0, 1, 2}}, []string{"interference"}, "rr")
	for i := range rr {
		rr[i].Unroll = 5
		rr[i].NoReplay = true
	}
	rrwin := caseJobs("VerifH_rrwin", map[string][]int{"k": {1, 2}}, []string{"k"}, "rr")
	cnt := one("VerifH_cnt")
	errpick := one("VerifH_errpick")
	reserr := one("VerifH_reserr")
	allGb := cat(initJ, cnt, usc, uccs, reserr, errpick, pick, pickRR, done, rr, rrwin)

	const me = "grpcgcp/multiendpoint"
	meBounds := map[string]string{
		"endpoints":  "universe {A,B,C} + one unknown name; lists of 0..3 distinct names",
		"durations":  "recovery timeout and switching delay symbolic in [0, 2^40) ns, including 0, r<d, r>d, r==d",
		"timers":     "step harness: one live recovery timer per recovering endpoint, 0..1 orphan (removed endpoint) timer, 0..2 pending delayed switches; timers fire in due order, equal due times in any order; stopped timers do not fire",
		"clock":      "strictly increasing per timeNow call; instants < 2^50",
		"k-step":     "real constructor + 1 (quick) / 2 (thorough) fully symbolic operations, initial list a prefix of A,B,C (by symmetry of names)",
		"loop unroll": "6",
	}
	var meJobs []Job
	for _, o := range []int{0, 1, 2} {
		meJobs = append(meJobs, Job{Dir: me, Harness: "multiendpoint", Entry: "VerifH_mestep", Flags: []string{fmt.Sprintf("op=%d", o)}, TmoMs: 60000})
	}
	for _, n0 := range []int{0, 1, 2, 3} {
		meJobs = append(meJobs, Job{Dir: me, Harness: "multiendpoint", Entry: "VerifH_me", Flags: []string{fmt.Sprintf("n0=%d", n0), "steps=1"}, Tier: "quick"})
		meJobs = append(meJobs, Job{Dir: me, Harness: "multiendpoint", Entry: "VerifH_me", Flags: []string{fmt.Sprintf("n0=%d", n0), "steps=2"}, Tier: "thorough", TmoMs: 120000})
	}
	return []Prop{
		{ID: "C13", Jobs: meJobs, Panics: true, Assume: commonAssume, Bounds: meBounds},
		{ID: "C14", Jobs: meJobs, Assume: commonAssume, Bounds: meBounds},
		{ID: "C01", Jobs: cat(usc, uccs, pick, done), Assume: commonAssume, Bounds: gbBounds},
		{ID: "C02", Jobs: cat(usc, uccs, pick, done, rr, rrwin), Assume: commonAssume, Bounds: gbBounds},
		{ID: "C03", Jobs: cat(initJ, usc, uccs, pick, done), Assume: commonAssume, Bounds: gbBounds},
		{ID: "C04", Jobs: cat(cnt, initJ, usc, errpick, pick, done), Assume: commonAssume, Bounds: gbBounds},
		{ID: "C05", Jobs: allGb, Panics: true, Assume: commonAssume, Bounds: gbBounds},
		{ID: "C06", Jobs: allGb, Progress: true, Assume: commonAssume, Bounds: gbBounds},
		{ID: "C07", Jobs: cat(initJ, usc, done), Assume: commonAssume, Bounds: gbBounds},
		{ID: "C08", Jobs: cat(usc, pick, done), Assume: commonAssume, Bounds: gbBounds},
		{ID: "C09", Jobs: cat(rr, rrwin, pickRR, usc), Assume: commonAssume, Bounds: gbBounds},
		{ID: "C20", Jobs: cat(initJ, uccs, usc, reserr, done), Assume: commonAssume, Bounds: gbBounds},
	}
}
