package main

const gcp = "grpcgcp"

var commonAssume = []string{
	"go/ssa (x/tools v0.29.0) SSA of the working tree is the semantics of the code; the symgo executor, cvc5 1.0.3 and z3 5.1.0 are trusted",
	"bounded claim: holds for the stated universe/unrolling only",
}

func allProps() []Prop {
	return []Prop{
		{ID: "C04", Jobs: []Job{
			{Dir: gcp, Harness: gcp, Entry: "VerifH_cnt"},
			{Dir: gcp, Harness: gcp, Entry: "VerifH_usc"},
		}, Assume: commonAssume, Bounds: map[string]string{"connections": "2 existing + 2 fresh", "slots": "3"}},
	}
}
