package main

import (
	"encoding/json"
	"flag"
	"fmt"
	"os"
	"path/filepath"
	"sort"
	"strings"
	"time"

	"golang.org/x/tools/go/packages"
	"golang.org/x/tools/go/ssa"
	"golang.org/x/tools/go/ssa/ssautil"
)

// RunResult is what one symbolic run of one harness entry reports (JSON on -out).
type RunResult struct {
	Entry       string            `json:"entry"`
	Pkg         string            `json:"pkg"`
	Status      string            `json:"status"` // "ok" or "UNSUPPORTED: ..." (inconclusive)
	LoadS       float64           `json:"load_s"`
	ExecS       float64           `json:"exec_s"`
	Blocks      int               `json:"blocks"`
	Merges      int               `json:"merges"`
	Instrs      int               `json:"instrs"`
	Obligations int               `json:"obligations"`
	Discharged  int               `json:"discharged"`
	Queries     int               `json:"queries"`
	Sat         int               `json:"sat"`
	Unsat       int               `json:"unsat"`
	Unknown     int               `json:"unknown"`
	Fallback    int               `json:"fallback"`
	Asserts     int               `json:"asserts"`
	SolverS     float64           `json:"solver_s"`
	FallbackS   float64           `json:"fallback_s"`
	Solver      string            `json:"solver"`
	Logic       string            `json:"logic"`
	Terms       int               `json:"terms"`
	Unroll      int               `json:"unroll"`
	Reach       map[string]string `json:"reach"`
	Events      []string          `json:"events,omitempty"`
	Funcs       map[string]int    `json:"funcs"`
	Stubs       map[string]int    `json:"stubs"`
	Findings    []Finding         `json:"findings"`
	Samples     []string          `json:"samples"`
	Strings     map[string]string `json:"strings"`
	Witness     map[string]string `json:"witness,omitempty"`
	Observes    map[string]string `json:"observes,omitempty"`
	ObsOrder    []string          `json:"obs_order,omitempty"`
	CrossN      int               `json:"cross_checked"`
	CrossBad    []string          `json:"cross_disagreements,omitempty"`
	Flags       []string          `json:"flags,omitempty"`
	Skipped     int               `json:"assertions_of_other_properties_skipped"`
}

type multiFlag []string

func (m *multiFlag) String() string     { return strings.Join(*m, ",") }
func (m *multiFlag) Set(s string) error { *m = append(*m, s); return nil }

func repoRoot() string {
	if r := os.Getenv("VERIF_REPO"); r != "" {
		return r
	}
	return "/repo"
}

func verifRoot() string {
	if r := os.Getenv("VERIF_ROOT"); r != "" {
		return r
	}
	exe, err := os.Executable()
	if err == nil {
		d := filepath.Dir(filepath.Dir(exe))
		if _, err := os.Stat(filepath.Join(d, "harness")); err == nil {
			return d
		}
	}
	return "/verif"
}

// moduleRoot walks up from dir to the directory holding go.mod.
func moduleRoot(dir string) string {
	d := dir
	for {
		if _, err := os.Stat(filepath.Join(d, "go.mod")); err == nil {
			return d
		}
		p := filepath.Dir(d)
		if p == d {
			return dir
		}
		d = p
	}
}

// scratchModfile copies go.mod/go.sum of the module to the scratch dir so that no go command
// run on behalf of a check can rewrite the repository's own go.mod.
func scratchModfile(modRoot, scratch string) string {
	dst := filepath.Join(scratch, "go.mod")
	b, err := os.ReadFile(filepath.Join(modRoot, "go.mod"))
	if err != nil {
		panic(err)
	}
	os.WriteFile(dst, b, 0o644)
	if b, err := os.ReadFile(filepath.Join(modRoot, "go.sum")); err == nil {
		os.WriteFile(filepath.Join(scratch, "go.sum"), b, 0o644)
	}
	return dst
}

// harnessFiles returns virtual path -> content for the overlay: the harness files of hdir plus
// the shared runtime, with the package clause rewritten to the package under test.
func harnessFiles(pkgDir, hdir, pkgName string) map[string][]byte {
	out := map[string][]byte{}
	hs, _ := filepath.Glob(filepath.Join(hdir, "*.go"))
	for _, h := range hs {
		if strings.HasSuffix(h, "_test.go") {
			continue
		}
		b, _ := os.ReadFile(h)
		out[filepath.Join(pkgDir, filepath.Base(h))] = b
	}
	// files for other packages of the same module: harness/<h>/_sub/<relative dir>/*.go
	subs, _ := filepath.Glob(filepath.Join(hdir, "_sub", "*", "*.go"))
	for _, h := range subs {
		rel := filepath.Base(filepath.Dir(h))
		b, _ := os.ReadFile(h)
		out[filepath.Join(pkgDir, rel, filepath.Base(h))] = b
	}
	rt, err := os.ReadFile(filepath.Join(verifRoot(), "harness", "rt", "zz_verif_rt.go"))
	if err != nil {
		panic(err)
	}
	out[filepath.Join(pkgDir, "zz_verif_rt.go")] = []byte(strings.Replace(string(rt), "package verifrt", "package "+pkgName, 1))
	return out
}

func cmdRun(args []string) int {
	fs := flag.NewFlagSet("run", flag.ExitOnError)
	dir := fs.String("dir", "", "package dir relative to the repository root")
	hdir := fs.String("harness", "", "harness dir (relative to /verif/harness)")
	entry := fs.String("entry", "", "entry function")
	out := fs.String("out", "", "result json")
	smtlog := fs.String("smtlog", "", "")
	unroll := fs.Int("unroll", 6, "")
	solver := fs.String("solver", "cvc5", "")
	logic := fs.String("logic", "QF_BV", "")
	tmo := fs.Int("timeout-ms", 20000, "per query")
	cross := fs.Int("cross", 0, "replay up to N queries on the other solver")
	crossBudget := fs.Int("cross-budget", 40, "seconds")
	verbose := fs.Bool("v", false, "")
	propID := fs.String("prop", "", "run on behalf of this property: assertions labelled for other properties only are skipped")
	var flags multiFlag
	fs.Var(&flags, "flag", "harness flag (verifFlag(name) is true)")
	fs.Parse(args)
	SolverName, SolverLogic, QueryTimeoutMs = *solver, *logic, *tmo
	KeepChecks = *cross > 0
	CrossBudgetS = *crossBudget
	if v := os.Getenv("VERIF_SLOW"); v != "" {
		fmt.Sscanf(v, "%f", &SlowLog)
	}

	res := &RunResult{Entry: *entry, Pkg: *dir, Status: "ok", Solver: *solver, Logic: *logic, Unroll: *unroll, Flags: flags}
	runProp = *propID
	code := runEntry(res, *dir, *hdir, *entry, *smtlog, *unroll, *cross, flags)
	b, _ := json.MarshalIndent(res, "", " ")
	if *out != "" {
		os.WriteFile(*out, b, 0o644)
	}
	if *verbose || *out == "" {
		fmt.Printf("entry=%s status=%s load=%.1fs exec=%.2fs blocks=%d merges=%d instrs=%d obligations=%d discharged=%d queries=%d (sat %d unsat %d unknown %d fb %d) solver=%.2fs terms=%d\n",
			res.Entry, res.Status, res.LoadS, res.ExecS, res.Blocks, res.Merges, res.Instrs, res.Obligations, res.Discharged, res.Queries, res.Sat, res.Unsat, res.Unknown, res.Fallback, res.SolverS, res.Terms)
		fmt.Printf("reach=%v\nevents=%v\n", res.Reach, res.Events)
		if *verbose {
			for _, k := range sortedKeys(res.Funcs) {
				fmt.Printf("  func %s x%d\n", k, res.Funcs[k])
			}
			for _, k := range sortedKeys(res.Stubs) {
				fmt.Printf("  stub %s x%d\n", k, res.Stubs[k])
			}
		}
		if SlowLog > 0 {
			type kv struct {
				k string
				v [2]float64
			}
			var l []kv
			for k, v := range QStats {
				l = append(l, kv{k, v})
			}
			sort.Slice(l, func(i, j int) bool { return l[i].v[1] > l[j].v[1] })
			for i, e := range l {
				if i < 25 {
					fmt.Printf("  qstat %6.0f queries %7.2fs  %s\n", e.v[0], e.v[1], e.k)
				}
			}
		}
		for _, f := range res.Findings {
			m := map[string]string{}
			for k, v := range f.Model {
				if v != "false" && v != "#x00000000" && v != "#x0000000000000000" && v != "#x00" {
					m[k] = v
				}
			}
			mb, _ := json.Marshal(m)
			fmt.Printf("FINDING %s [%s]: %s\n   at %s\n   model(nonzero)=%s\n", f.Kind, f.Known, f.Label, f.Where, mb)
		}
	}
	return code
}

var runProp string

// buildTags: harness files are guarded by tag verif; job flag "big" selects the larger universe.
func buildTags(flags []string) string {
	for _, f := range flags {
		if f == "big" {
			return "verif,verifbig"
		}
	}
	return "verif"
}

func loadKnownSpecs() []KnownSpec {
	b, err := os.ReadFile(filepath.Join(verifRoot(), "known_findings.json"))
	if err != nil {
		return nil
	}
	var kf struct {
		Known []KnownSpec `json:"known"`
	}
	if err := json.Unmarshal(b, &kf); err != nil {
		panic("known_findings.json: " + err.Error())
	}
	return kf.Known
}

func runEntry(res *RunResult, dir, hdir, entry, smtlog string, unroll, cross int, flags []string) int {
	t0 := time.Now()
	pkgDir := filepath.Join(repoRoot(), dir)
	scratch, err := os.MkdirTemp("", "verif.run.")
	if err != nil {
		panic(err)
	}
	defer os.RemoveAll(scratch)
	modfile := scratchModfile(moduleRoot(pkgDir), scratch)
	pkgName, err := packageName(pkgDir)
	if err != nil {
		res.Status = "UNSUPPORTED: " + err.Error()
		return 2
	}
	overlay := harnessFiles(pkgDir, filepath.Join(verifRoot(), "harness", hdir), pkgName)
	cfg := &packages.Config{Mode: packages.LoadAllSyntax, Dir: pkgDir, Overlay: overlay,
		BuildFlags: []string{"-tags=" + buildTags(flags), "-modfile=" + modfile},
		Env:        append(os.Environ(), "GOFLAGS=-mod=mod", "GOPROXY=off", "GOSUMDB=off", "GOTOOLCHAIN=local")}
	pkgs, err := packages.Load(cfg, ".")
	if err != nil {
		res.Status = "UNSUPPORTED: load: " + err.Error()
		return 2
	}
	nerr := 0
	var firstErr string
	packages.Visit(pkgs, nil, func(p *packages.Package) {
		for _, e := range p.Errors {
			if nerr == 0 {
				firstErr = e.Error()
			}
			nerr++
		}
	})
	if nerr > 0 {
		res.Status = "UNSUPPORTED: harness does not compile against the tree: " + firstErr
		return 2
	}
	prog, spkgs := ssautil.AllPackages(pkgs, ssa.InstantiateGenerics)
	prog.Build()
	res.LoadS = time.Since(t0).Seconds()
	if entry == "P7_flags" {
		runP7(res, prog, spkgs[0])
		res.ExecS = time.Since(t0).Seconds() - res.LoadS
		if res.Status != "ok" {
			return 2
		}
		return 0
	}
	fn := spkgs[0].Func(entry)
	if fn == nil {
		res.Status = "UNSUPPORTED: no entry " + entry
		return 2
	}
	in := NewInterp(prog)
	defer in.solver.Close()
	in.maxUnroll = unroll
	in.entry = entry
	in.prop = runProp
	in.knownSpecs = loadKnownSpecs()
	in.knownCond = map[string]*Term{}
	in.flags = map[string]bool{}
	for _, f := range flags {
		in.flags[f] = true
	}
	in.realKeys = in.flags["realKeys"]
	if smtlog != "" {
		f, _ := os.Create(smtlog)
		defer f.Close()
		in.solver.log = f
	}
	in.harnessPkg = spkgs[0]
	t1 := time.Now()
	var finalG *Term
	func() {
		defer func() {
			if r := recover(); r != nil {
				if u, ok := r.(unsupportedErr); ok {
					res.Status = "UNSUPPORTED: " + u.msg + " @ " + in.curInstr
					return
				}
				res.Status = fmt.Sprintf("UNSUPPORTED: internal error %v @ %s", r, in.curInstr)
				if os.Getenv("VERIF_DEBUG") != "" {
					panic(r)
				}
			}
		}()
		st0 := newState()
		// package-level variables of the package under test that init() sets to a function literal,
		// a function or a constant take that value (the rest of init is not executed)
		for _, p := range prog.AllPackages() {
			if p == spkgs[0] || strings.Contains(p.Pkg.Path(), "GoogleCloudPlatform/grpc-gcp-go") {
				st0 = in.staticInit(p, st0)
			}
		}
		if in.flags["runInit"] {
			if ini := spkgs[0].Func("init"); ini != nil {
				_, st0, _ = in.callFn(FuncV{fn: ini}, nil, True, st0, 0)
			}
		}
		g, _, _ := in.callFn(FuncV{fn: fn}, nil, True, st0, 0)
		finalG = g
		in.flush(in.batch)
		in.flush(in.tail)
		in.batch, in.tail = nil, nil
		if g.IsFalse() {
			if len(in.findings) == 0 {
				res.Status = "UNSUPPORTED: no path of the harness returns"
			}
			return
		}
		// witness: a model of one complete path through the harness, with the observed values
		var obsVars []*Term
		for i, o := range in.observes {
			v := Var(fmt.Sprintf("obs!%d", i), o.T.sort)
			in.solver.Assert(Eq(v, o.T))
			gv := Var(fmt.Sprintf("obsg!%d", i), BoolSort)
			in.solver.Assert(Eq(gv, o.G))
			obsVars = append(obsVars, v, gv)
		}
		// the witness must be a path on which every float->int conversion is in range (outside it Go's
		// result is implementation-defined and the native replay could differ from the solver's choice)
		wg := g
		for _, x := range in.floatToInt {
			lo := FPFromBits(BV(64, 0xC3E0000000000000)) // -2^63
			hi := FPFromBits(BV(64, 0x43E0000000000000)) // 2^63
			wg = And(wg, FPCmp("geq", x, lo), FPCmp("lt", x, hi))
		}
		if len(in.floatToInt) > 0 && !in.sat(wg) {
			wg = g
		}
		if in.sat(wg) {
			res.Witness = in.solver.Model(in.vars)
			res.Observes = map[string]string{}
			om := in.solver.Model(obsVars)
			cnt := map[string]int{}
			for i, o := range in.observes {
				if om[fmt.Sprintf("obsg!%d", i)] != "true" {
					continue // not on the witness path
				}
				nm := fmt.Sprintf("%s#%d", o.Name, cnt[o.Name])
				cnt[o.Name]++
				res.ObsOrder = append(res.ObsOrder, nm)
				res.Observes[nm] = om[fmt.Sprintf("obs!%d", i)]
			}
		} else if len(in.findings) == 0 {
			// (when findings were reported, their paths are cut off: an unreachable end is explained)
			res.Status = "UNSUPPORTED: harness end is unreachable (vacuous)"
		}
	}()
	_ = finalG
	res.ExecS = time.Since(t1).Seconds()
	res.Blocks, res.Merges, res.Instrs = in.blocks, in.merges, in.instrs
	res.Obligations, res.Discharged = in.obligations, in.discharged
	res.Skipped = in.skipped
	s := in.solver
	res.Queries, res.Sat, res.Unsat, res.Unknown, res.Fallback, res.Asserts = s.Queries, s.Sat, s.Unsat, s.Unknown, s.Fallback, s.Asserts
	res.SolverS, res.FallbackS = s.Time.Seconds(), s.FbTime.Seconds()
	res.Terms = len(allTerms)
	res.Reach, res.Events, res.Funcs, res.Stubs = in.reach, in.events, in.funcs, in.stubs
	res.Findings = in.findings
	res.Samples = in.samples
	res.Strings = map[string]string{}
	for str, id := range strIntern {
		res.Strings[fmt.Sprintf("%d", id)] = str
	}
	if cross > 0 && res.Status == "ok" {
		other := "z3-new"
		if SolverName == "z3-new" {
			other = "cvc5"
		}
		res.CrossN, res.CrossBad = s.CrossCheck(other, cross)
	}
	if len(res.CrossBad) > 0 && res.Status == "ok" {
		res.Status = "UNSUPPORTED: solvers disagree: " + res.CrossBad[0]
	}
	if res.Status != "ok" {
		return 2
	}
	return 0
}

func packageName(dir string) (string, error) {
	fs, _ := filepath.Glob(filepath.Join(dir, "*.go"))
	sort.Strings(fs)
	for _, f := range fs {
		if strings.HasSuffix(f, "_test.go") {
			continue
		}
		b, err := os.ReadFile(f)
		if err != nil {
			continue
		}
		for _, l := range strings.Split(string(b), "\n") {
			l = strings.TrimSpace(l)
			if strings.HasPrefix(l, "package ") {
				return strings.Fields(l)[1], nil
			}
		}
	}
	return "", fmt.Errorf("no Go package in %s", dir)
}

func (in *Interp) staticInit(pkg *ssa.Package, st *MState) *MState {
	ini := pkg.Func("init")
	if ini == nil {
		return st
	}
	act := &Act{in: in, fn: ini, env: Env{}, st: st, g: True}
	for _, b := range ini.Blocks {
		for _, instr := range b.Instrs {
			sto, ok := instr.(*ssa.Store)
			if !ok {
				continue
			}
			g, ok := sto.Addr.(*ssa.Global)
			if !ok || g.Name() == "init$guard" {
				continue
			}
			var v Value
			switch x := sto.Val.(type) {
			case *ssa.Function:
				v = FuncV{fn: x}
			case *ssa.MakeClosure:
				if len(x.Bindings) == 0 {
					v = FuncV{fn: x.Fn.(*ssa.Function)}
				}
			case *ssa.Const:
				func() {
					defer func() { recover() }()
					v = in.constVal(x)
				}()
			case *ssa.Call:
				// a package-level object made by a constructor the executor models (e.g. a hash object
				// kept in a global): it exists from the start
				if f := x.Call.StaticCallee(); f != nil && len(x.Call.Args) == 0 && f.String() == "crypto/sha256.New" {
					func() {
						defer func() { recover() }()
						if r, ok := act.intrinsic(f.String(), FuncV{fn: f}, nil); ok {
							v = r
						}
					}()
				}
			}
			if v == nil {
				continue
			}
			p := act.global(g)
			act.st.heap[p.alts[0].obj] = VS{v, -p.alts[0].obj}
		}
	}
	return act.st
}
