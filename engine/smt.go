package main

import (
	"bufio"
	"fmt"
	"io"
	"os/exec"
	"strings"
	"time"
)

// Solver drives one long-lived SMT process (cvc5 --incremental by default).  Every
// declaration / definition / assertion is also kept in `script`, so that a query the primary
// solver cannot decide can be replayed from scratch on the secondary solver (z3-new), and the
// thorough tier can replay the whole query log there for cross-checking.
type Solver struct {
	name    string
	cmd     *exec.Cmd
	in      io.WriteCloser
	out     *bufio.Reader
	Queries int
	Asserts int
	Sat     int
	Unsat   int
	Unknown int
	Fallback int // queries answered by the secondary solver after unknown
	Time    time.Duration
	FbTime  time.Duration
	log     io.Writer
	script  []string // declare/define/assert lines
	checks  []checkRec
	emitted map[int]bool
	ufDecl  map[string]bool
	dead    bool
}

type checkRec struct {
	scriptLen int
	cmd       string
	res       string
}

var (
	SolverName    = "cvc5"
	SolverLogic   = "QF_BV"
	QueryTimeoutMs = 20000
	KeepChecks    = false
	SlowLog       = 0.0
	CrossBudgetS  = 40
	CurWhere      = ""
	QueryKind     = ""
	QStats        = map[string][2]float64{}
)

func startSolver(name string) (*exec.Cmd, io.WriteCloser, *bufio.Reader) {
	var cmd *exec.Cmd
	switch name {
	case "cvc5":
		args := []string{"--incremental", "--produce-models", fmt.Sprintf("--tlimit-per=%d", QueryTimeoutMs), "--lang=smt2"}
		if strings.Contains(SolverLogic, "S") && !strings.Contains(SolverLogic, "QF_BV") { // string logics
			args = append(args, "--strings-exp")
		}
		cmd = exec.Command("cvc5", args...)
	case "cvc5-int":
		cmd = exec.Command("cvc5", "--incremental", "--produce-models", fmt.Sprintf("--tlimit-per=%d", QueryTimeoutMs), "--lang=smt2", "--solve-bv-as-int=sum")
	default:
		cmd = exec.Command("z3-new", "-in", fmt.Sprintf("-t:%d", QueryTimeoutMs))
	}
	in, _ := cmd.StdinPipe()
	outp, _ := cmd.StdoutPipe()
	cmd.Stderr = cmd.Stdout
	if err := cmd.Start(); err != nil {
		panic(err)
	}
	return cmd, in, bufio.NewReader(outp)
}

func NewSolver() *Solver {
	s := &Solver{name: SolverName, emitted: map[int]bool{}}
	s.cmd, s.in, s.out = startSolver(s.name)
	s.prelude()
	return s
}

func (s *Solver) prelude() {
	if strings.HasPrefix(s.name, "cvc5") {
		s.raw("(set-logic " + SolverLogic + ")")
	} else {
		s.raw("(set-option :produce-models true)")
	}
}

func (s *Solver) raw(line string) {
	if s.log != nil {
		fmt.Fprintln(s.log, line)
	}
	io.WriteString(s.in, line+"\n")
}

func (s *Solver) send(line string) {
	s.script = append(s.script, line)
	s.raw(line)
}

func (s *Solver) emit(t *Term) {
	if s.emitted[t.id] {
		return
	}
	for _, a := range t.args {
		s.emit(a)
	}
	s.emitted[t.id] = true
	if t.op == "uf" && !s.ufDecl[t.name] {
		if s.ufDecl == nil {
			s.ufDecl = map[string]bool{}
		}
		s.ufDecl[t.name] = true
		var as []string
		for _, a := range t.args {
			as = append(as, a.sort.String())
		}
		s.send(fmt.Sprintf("(declare-fun |%s| (%s) %s)", t.name, strings.Join(as, " "), t.sort))
	}
	switch t.op {
	case "const":
	case "var":
		s.send(fmt.Sprintf("(declare-const %s %s)", t.ref(), t.sort))
	default:
		s.send(fmt.Sprintf("(define-fun t%d () %s %s)", t.id, t.sort, t.body()))
	}
}

func (s *Solver) Assert(t *Term) {
	s.emit(t)
	s.send("(assert " + t.ref() + ")")
	s.Asserts++
}

// Check returns "sat","unsat","unknown".
func (s *Solver) Check(assumps []*Term) string {
	var lits []string
	for _, a := range assumps {
		if a.IsTrue() {
			continue
		}
		if a.IsFalse() {
			return "unsat"
		}
		s.emit(a)
		if a.op == "not" && !a.args[0].IsConst() {
			lits = append(lits, "(not "+a.args[0].ref()+")")
		} else {
			lits = append(lits, a.ref())
		}
	}
	cmd := "(check-sat)"
	if len(lits) > 0 {
		cmd = "(check-sat-assuming (" + strings.Join(lits, " ") + "))"
	}
	t0 := time.Now()
	s.raw(cmd)
	res := s.readLine()
	d := time.Since(t0)
	s.Time += d
	s.Queries++
	if SlowLog > 0 {
		k := CurWhere
		if i := strings.Index(k, ": "); i > 0 {
			k = k[:i]
		}
		k += " / " + QueryKind
		st := QStats[k]
		st[0]++
		st[1] += d.Seconds()
		QStats[k] = st
	}
	if SlowLog > 0 && d.Seconds() > SlowLog {
		fmt.Printf("  slow query #%d %.2fs -> %s   [%s]\n", s.Queries, d.Seconds(), res, CurWhere)
	}
	if strings.HasPrefix(res, "(error") {
		panic(unsupported("solver error: " + res))
	}
	if res != "sat" && res != "unsat" {
		// secondary solver from scratch
		t1 := time.Now()
		res = s.fallback(cmd)
		s.FbTime += time.Since(t1)
		if res == "sat" || res == "unsat" {
			s.Fallback++
		}
	}
	switch res {
	case "sat":
		s.Sat++
	case "unsat":
		s.Unsat++
	default:
		s.Unknown++
		res = "unknown"
	}
	if KeepChecks {
		s.checks = append(s.checks, checkRec{len(s.script), cmd, res})
	}
	return res
}

// fallback replays the script on the other solver and asks the same query.  A "sat" answer from
// the fallback cannot provide a model in the primary session, so only unsat is trusted for
// discharging; sat is returned as sat (callers that need a model re-query it there).
func (s *Solver) fallback(cmd string) string {
	other := "z3-new"
	if s.name == "z3-new" {
		other = "cvc5"
	}
	c, in, out := startSolver(other)
	defer func() { in.Close(); c.Process.Kill(); c.Wait() }()
	var sb strings.Builder
	if other == "cvc5" {
		sb.WriteString("(set-logic " + SolverLogic + ")\n")
	}
	for _, l := range s.script {
		sb.WriteString(l)
		sb.WriteByte('\n')
	}
	sb.WriteString(cmd + "\n")
	go io.WriteString(in, sb.String())
	for {
		l, err := out.ReadString('\n')
		if err != nil {
			return "unknown"
		}
		l = strings.TrimSpace(l)
		if l == "sat" || l == "unsat" || l == "unknown" || l == "timeout" {
			return l
		}
		if strings.HasPrefix(l, "(error") {
			return "unknown"
		}
	}
}

func (s *Solver) readLine() string {
	l, err := s.out.ReadString('\n')
	if err != nil {
		panic(unsupported("solver died: " + err.Error()))
	}
	return strings.TrimSpace(l)
}

// readSexp reads one balanced s-expression (possibly spanning lines).
func (s *Solver) readSexp() string {
	var sb strings.Builder
	depth, started := 0, false
	inBar := false
	for {
		l, err := s.out.ReadString('\n')
		if err != nil {
			panic(unsupported("solver died: " + err.Error()))
		}
		for _, ch := range l {
			switch {
			case ch == '|':
				inBar = !inBar
			case inBar:
			case ch == '(':
				depth++
				started = true
			case ch == ')':
				depth--
			}
		}
		sb.WriteString(l)
		if started && depth <= 0 {
			return sb.String()
		}
		if !started && strings.TrimSpace(l) != "" {
			return sb.String()
		}
	}
}

// Model returns values of the given vars after a sat answer (on the live session).
func (s *Solver) Model(vars []*Term) map[string]string {
	m := map[string]string{}
	if len(vars) == 0 {
		return m
	}
	const chunk = 200
	for i := 0; i < len(vars); i += chunk {
		j := i + chunk
		if j > len(vars) {
			j = len(vars)
		}
		var names []string
		for _, v := range vars[i:j] {
			s.emit(v)
			names = append(names, v.ref())
		}
		s.raw("(get-value (" + strings.Join(names, " ") + "))")
		resp := s.readSexp()
		if strings.HasPrefix(strings.TrimSpace(resp), "(error") {
			return m
		}
		parseModel(resp, m)
	}
	return m
}

// parseModel parses "((|a| #x01) (|b| true) (c (_ bv3 8)) (f (fp #b0 #b.. #b..)))".
func parseModel(resp string, m map[string]string) {
	toks := tokenize(resp)
	// toks: ( ( name value... ) ( name value ) )
	i := 0
	if i < len(toks) && toks[i] == "(" {
		i++
	}
	for i < len(toks) && toks[i] == "(" {
		i++
		if i >= len(toks) {
			break
		}
		name := strings.Trim(toks[i], "|")
		i++
		// value: either atom or balanced list
		var val string
		if toks[i] == "(" {
			d := 0
			var parts []string
			for ; i < len(toks); i++ {
				if toks[i] == "(" {
					d++
				} else if toks[i] == ")" {
					d--
				}
				parts = append(parts, toks[i])
				if d == 0 {
					i++
					break
				}
			}
			val = strings.Join(parts, " ")
			val = strings.ReplaceAll(val, "( ", "(")
			val = strings.ReplaceAll(val, " )", ")")
		} else {
			val = toks[i]
			i++
		}
		m[name] = val
		if i < len(toks) && toks[i] == ")" {
			i++
		}
	}
}

func tokenize(s string) []string {
	var toks []string
	for i := 0; i < len(s); {
		c := s[i]
		switch {
		case c == '(' || c == ')':
			toks = append(toks, string(c))
			i++
		case c == ' ' || c == '\n' || c == '\t' || c == '\r':
			i++
		case c == '|':
			j := strings.IndexByte(s[i+1:], '|')
			toks = append(toks, s[i:i+j+2])
			i += j + 2
		default:
			j := i
			for j < len(s) && !strings.ContainsRune("() \n\t\r", rune(s[j])) {
				j++
			}
			toks = append(toks, s[i:j])
			i = j
		}
	}
	return toks
}

// modelUint converts an SMT value (#x.., #b.., (_ bvN w), true/false) to a uint64.
func modelUint(v string) (uint64, bool) {
	switch {
	case v == "true":
		return 1, true
	case v == "false":
		return 0, true
	case strings.HasPrefix(v, "#x"):
		var u uint64
		_, err := fmt.Sscanf(v[2:], "%x", &u)
		return u, err == nil
	case strings.HasPrefix(v, "#b"):
		var u uint64
		for _, c := range v[2:] {
			u = u<<1 | uint64(c-'0')
		}
		return u, true
	case strings.HasPrefix(v, "(_ bv"):
		var u uint64
		var w int
		_, err := fmt.Sscanf(v, "(_ bv%d %d)", &u, &w)
		return u, err == nil
	}
	return 0, false
}

func (s *Solver) Close() {
	if s.in != nil {
		s.in.Close()
	}
	if s.cmd != nil {
		s.cmd.Process.Kill()
		s.cmd.Wait()
	}
}

// CrossCheck replays the recorded query log on the other solver and returns the number of
// queries compared and the disagreements.
func (s *Solver) CrossCheck(other string, max int) (compared int, disagreements []string) {
	if len(s.checks) == 0 {
		return 0, nil
	}
	c, in, out := startSolver(other)
	defer func() { in.Close(); c.Process.Kill(); c.Wait() }()
	w := bufio.NewWriter(in)
	if strings.HasPrefix(other, "cvc5") {
		fmt.Fprintln(w, "(set-logic "+SolverLogic+")")
	}
	pos := 0
	step := 1
	if max > 0 && len(s.checks) > max {
		step = (len(s.checks) + max - 1) / max
	}
	deadline := time.Now().Add(time.Duration(CrossBudgetS) * time.Second)
	go func() { // the secondary solver may sit in one hard query: bound the whole cross-check
		time.Sleep(time.Until(deadline) + 2*time.Second)
		c.Process.Kill()
	}()
	for qi, ch := range s.checks {
		if time.Now().After(deadline) {
			break
		}
		for ; pos < ch.scriptLen; pos++ {
			fmt.Fprintln(w, s.script[pos])
		}
		if qi%step != 0 {
			continue
		}
		fmt.Fprintln(w, ch.cmd)
		w.Flush()
		var res string
		for {
			l, err := out.ReadString('\n')
			if err != nil {
				if time.Now().After(deadline) {
					return compared, disagreements // budget used up
				}
				return compared, append(disagreements, "secondary solver died")
			}
			l = strings.TrimSpace(l)
			if l == "sat" || l == "unsat" || l == "unknown" || l == "timeout" {
				res = l
				break
			}
			if strings.HasPrefix(l, "(error") {
				res = "error:" + l
				break
			}
		}
		if res == "sat" || res == "unsat" {
			compared++
			if ch.res != "unknown" && res != ch.res {
				disagreements = append(disagreements, fmt.Sprintf("query %d: %s says %s, %s says %s", qi, s.name, ch.res, other, res))
			}
		}
	}
	return
}
