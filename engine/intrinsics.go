package main

import (
	"path"
	"fmt"
	"strconv"
	"go/types"
	"strings"
)

func lockKey(p PtrV) string {
	if len(p.alts) != 1 || !p.alts[0].g.IsTrue() {
		panic(unsupported("mutex through symbolic pointer"))
	}
	return fmt.Sprintf("%d:%v", p.alts[0].obj, p.alts[0].path)
}

func argStr(v Value) string {
	s, ok := v.(StrV)
	if !ok || !s.conc {
		panic(unsupported("intrinsic needs constant string"))
	}
	return s.s
}

func baseName(full string) string {
	if j := strings.Index(full, "["); j >= 0 {
		full = full[:j]
	}
	i := strings.LastIndex(full, ".")
	return full[i+1:]
}

func (in *Interp) timeVal(ns *Term) Value {
	return StructV{f: []Value{BV(64, 0), ns, nilPtr()}}
}

func (a *Act) lockState(k string) (*Term, *Term) {
	w, ok := a.st.locks[k]
	if !ok {
		w = False
	}
	r, ok := a.st.rlock[k]
	if !ok {
		r = BV(8, 0)
	}
	return w, r
}

func (a *Act) deadlockIf(c *Term, what string) {
	if c.IsFalse() {
		return
	}
	a.in.obligation(a.g, "deadlock", what+" in "+a.fn.String(), c)
	if c.IsTrue() {
		a.kill()
	}
}

func (a *Act) intrinsic(name string, fv FuncV, args []Value) (Value, bool) {
	in := a.in
	if r, ok := a.reflectIntrinsic(name, args); ok {
		return r, true
	}
	switch name {
	case "strings.Split":
		s, sep := args[0].(StrV), args[1].(StrV)
		if !s.conc || !sep.conc {
			panic(unsupported("strings.Split on symbolic string"))
		}
		parts := strings.Split(s.s, sep.s)
		arr := ArrayV{e: make([]Value, len(parts))}
		for i, p := range parts {
			arr.e[i] = ConcStr(p)
		}
		return SliceV{arr: ptrTo(a.alloc(arr)), len: BV(64, uint64(len(parts))), cap: BV(64, uint64(len(parts)))}, true
	case "strings.FieldsFunc", "strings.Fields":
		s0 := args[0].(StrV)
		if !s0.conc {
			panic(unsupported(name + " on a symbolic string"))
		}
		var parts []string
		if name == "strings.Fields" {
			parts = strings.Fields(s0.s)
		} else {
			fn := args[1].(FuncV)
			parts = strings.FieldsFunc(s0.s, func(r rune) bool {
				res := a.callFunc(fn, []Value{BV(32, uint64(uint32(r)))})
				t, ok := res.(*Term)
				if !ok || !t.IsConst() {
					panic(unsupported("FieldsFunc predicate is not decided on a concrete rune"))
				}
				return t.IsTrue()
			})
		}
		arr := ArrayV{e: make([]Value, len(parts))}
		for i, p := range parts {
			arr.e[i] = ConcStr(p)
		}
		if len(parts) == 0 {
			return SliceV{arr: nilPtr(), len: BV(64, 0), cap: BV(64, 0)}, true
		}
		return SliceV{arr: ptrTo(a.alloc(arr)), len: BV(64, uint64(len(parts))), cap: BV(64, uint64(len(parts)))}, true
	case "strings.Title":
		s := args[0].(StrV)
		if s.conc {
			return ConcStr(strings.Title(s.s)), true
		}
		// a choice among constants: map every leaf
		return StrV{id: mapStrLeaves(s.id, func(x string) string { return strings.Title(x) })}, true
	case "hash/crc32.MakeTable":
		arr := ArrayV{e: make([]Value, 256)}
		for i := range arr.e {
			arr.e[i] = BV(32, 0)
		}
		arr.e[0] = args[0] // remember the polynomial
		return ptrTo(a.alloc(arr)), true
	case "hash/crc32.Checksum":
		data := args[0].(SliceV)
		tab := args[1].(PtrV)
		poly := navigate(a.st.heap[tab.alts[0].obj].v, tab.alts[0].path).(ArrayV).e[0].(*Term)
		in.events = append(in.events, fmt.Sprintf("crc32.Checksum(poly=%#x, data=obj%d off=%d)", poly.val, data.arr.alts[0].obj, data.off))
		return in.crcRecord(data, poly), true
	case "log.Printf", "log.Println", "log.Fatalf":
		return nil, true
	case "google.golang.org/protobuf/proto.Clone":
		// structural deep copy of the message object graph (DESIGN.md section 4.2)
		iv := args[0].(IfaceV)
		out := IfaceV{nilG: iv.nilG}
		for _, al := range iv.alts {
			out.alts = append(out.alts, IfaceAlt{g: al.g, typ: al.typ, val: a.deepClone(al.val, al.typ, 0)})
		}
		return out, true
	case "(*github.com/golang/protobuf/proto.Buffer).Unmarshal":
		// decoding from a buffer into a message: the executor does not model the message's content; the
		// target keeps what it had (this decoder merges, it does not reset), no error
		return nilIface(), true
	case "(*github.com/golang/protobuf/proto.Buffer).Marshal":
		// encoding a message into the buffer: SOME encoding of it is appended - an arbitrary byte string
		// of 0..4 bytes (encodings of one message are not unique: map order, unknown fields), no error
		bp := args[0].(PtrV)
		a.mayPanic(bp.nilG, "nil proto.Buffer")
		st := fv.fn.Signature.Recv().Type().(*types.Pointer).Elem().Underlying().(*types.Struct)
		bi := -1
		for i := 0; i < st.NumFields(); i++ {
			if st.Field(i).Name() == "buf" {
				bi = i
			}
		}
		if bi < 0 || len(bp.alts) != 1 {
			panic(unsupported("proto.Buffer layout"))
		}
		al := bp.alts[0]
		root := a.st.heap[al.obj].v
		path := append(append([]int{}, al.path...), bi)
		buf := navigate(root, path).(SliceV)
		enc := ArrayV{e: make([]Value, 4)}
		for i := range enc.e {
			enc.e[i] = in.fresh("reencoded", BVS(8))
		}
		n := in.fresh("reencodedLen", BVS(64))
		in.solver.Assert(BvCmp("bvule", n, BV(64, 4)))
		nb := a.appendOp(buf, SliceV{arr: ptrTo(a.alloc(enc)), len: n, cap: BV(64, 4)})
		root = a.st.heap[al.obj].v
		a.st.heap[al.obj] = nv(update(root, path, nb))
		return nilIface(), true
	case "github.com/golang/protobuf/proto.DiscardUnknown", "google.golang.org/protobuf/proto.DiscardUnknown":
		// modelled on messages of the legacy shape only: the unknown fields live in XXX_unrecognized
		iv := args[0].(IfaceV)
		for _, al := range iv.alts {
			pt, ok := al.typ.(*types.Pointer)
			if !ok {
				panic(unsupported(name + " on " + al.typ.String()))
			}
			st, ok := pt.Elem().Underlying().(*types.Struct)
			idx := -1
			if ok {
				for i := 0; i < st.NumFields(); i++ {
					if st.Field(i).Name() == "XXX_unrecognized" {
						idx = i
					}
				}
			}
			if idx < 0 {
				panic(unsupported(name + " on a message without XXX_unrecognized: " + al.typ.String()))
			}
			p := al.val.(PtrV)
			for _, pa := range p.alts {
				root := a.st.heap[pa.obj].v
				path := append(append([]int{}, pa.path...), idx)
				old := navigate(root, path)
				a.st.heap[pa.obj] = nv(update(root, path, iteVal(And(al.g, pa.g), SliceV{arr: nilPtr(), len: BV(64, 0), cap: BV(64, 0)}, old)))
			}
		}
		return nil, true
	case "google.golang.org/protobuf/encoding/protojson.Marshal":
		return TupleV{SliceV{arr: nilPtr(), len: BV(64, 0), cap: BV(64, 0)}, nilIface()}, true
	case "time.AfterFunc":
		in.events = append(in.events, "time.AfterFunc")
		return nilPtr(), true
	case "(*time.Timer).Stop":
		return True, true
	case "strings.EqualFold":
		// decided on concrete strings and on choices among concrete strings
		x, y := args[0].(StrV), args[1].(StrV)
		r, ok := mapStrLeavesTerm(strID(x), func(xs string) *Term {
			r2, ok2 := mapStrLeavesTerm(strID(y), func(ys string) *Term { return BoolC(strings.EqualFold(xs, ys)) })
			if !ok2 {
				panic(unsupported("strings.EqualFold on a symbolic string"))
			}
			return r2
		})
		if !ok {
			panic(unsupported("strings.EqualFold on a symbolic string"))
		}
		return r, true
	case "strings.ToUpper":
		s0 := args[0].(StrV)
		if s0.conc {
			return ConcStr(strings.ToUpper(s0.s)), true
		}
		return StrV{id: mapStrLeaves(s0.id, strings.ToUpper)}, true
	case "strings.ToLower":
		s0 := args[0].(StrV)
		if s0.conc {
			return ConcStr(strings.ToLower(s0.s)), true
		}
		return StrV{id: mapStrLeaves(s0.id, strings.ToLower)}, true
	case "strings.HasSuffix":
		return in.fresh("hasSuffix", BoolSort), true
	case "strings.HasPrefix":
		// memoised: a function of the string and the (constant) prefix
		s0, pre := args[0].(StrV), args[1].(StrV)
		if s0.conc && pre.conc {
			return BoolC(strings.HasPrefix(s0.s, pre.s)), true
		}
		if pre.conc && !s0.conc {
			if t, ok := mapStrLeavesTerm(s0.id, func(x string) *Term { return BoolC(strings.HasPrefix(x, pre.s)) }); ok {
				return t, true
			}
		}
		return UF("strings.HasPrefix", BoolSort, strID(s0), strID(pre)), true
	case "strings.TrimPrefix":
		s0, pre := args[0].(StrV), args[1].(StrV)
		if s0.conc && pre.conc {
			return ConcStr(strings.TrimPrefix(s0.s, pre.s)), true
		}
		if pre.conc && !s0.conc {
			if t, ok := mapStrLeavesTerm(s0.id, func(x string) *Term { return strID(ConcStr(strings.TrimPrefix(x, pre.s))) }); ok {
				return StrV{id: t}, true
			}
		}
		return StrV{id: UF("strings.TrimPrefix", BVS(32), strID(s0), strID(pre))}, true
	case "strings.TrimLeft", "strings.TrimRight", "strings.TrimSuffix", "strings.Trim":
		s0, cut := args[0].(StrV), args[1].(StrV)
		f := map[string]func(string, string) string{"strings.TrimLeft": strings.TrimLeft, "strings.TrimRight": strings.TrimRight, "strings.TrimSuffix": strings.TrimSuffix, "strings.Trim": strings.Trim}[name]
		if s0.conc && cut.conc {
			return ConcStr(f(s0.s, cut.s)), true
		}
		if cut.conc && !s0.conc {
			if t, ok := mapStrLeavesTerm(s0.id, func(x string) *Term { return strID(ConcStr(f(x, cut.s))) }); ok {
				return StrV{id: t}, true
			}
		}
		return StrV{id: UF(name, BVS(32), strID(s0), strID(cut))}, true
	case "strings.TrimSpace":
		s0 := args[0].(StrV)
		if s0.conc {
			return ConcStr(strings.TrimSpace(s0.s)), true
		}
		if t, ok := mapStrLeavesTerm(s0.id, func(x string) *Term { return strID(ConcStr(strings.TrimSpace(x))) }); ok {
			return StrV{id: t}, true
		}
		return StrV{id: UF(name, BVS(32), strID(s0))}, true
	case "strconv.ParseInt":
		s0 := args[0].(StrV)
		if b, okb := args[1].(*Term); okb && b.IsConst() && (s0.conc || s0.id.op == "ite") {
			// concrete strings (or a choice among constants): the real result
			parse := func(x string) (uint64, bool) {
				v, err := strconv.ParseInt(x, int(b.val), 64)
				return uint64(v), err != nil
			}
			var vt, bt *Term
			ok1 := true
			if s0.conc {
				v, bad := parse(s0.s)
				vt, bt = BV(64, v), BoolC(bad)
			} else {
				vt, ok1 = mapStrLeavesTerm(s0.id, func(x string) *Term { v, _ := parse(x); return BV(64, v) })
				if ok1 {
					bt, ok1 = mapStrLeavesTerm(s0.id, func(x string) *Term { _, bad := parse(x); return BoolC(bad) })
				}
			}
			if ok1 {
				tag := "strconv.NumError"
				errv := IfaceV{alts: []IfaceAlt{{g: bt, typ: in.opaqueType(tag), val: OpaqueV{tag: tag}}}, nilG: Not(bt)}
				return TupleV{Ite(bt, BV(64, 0), vt), errv}, true
			}
		}
		val := UF("strconv.ParseInt.value", BVS(64), strID(s0))
		bad := UF("strconv.ParseInt.fails", BoolSort, strID(s0))
		tag := "strconv.NumError"
		errv := IfaceV{alts: []IfaceAlt{{g: bad, typ: in.opaqueType(tag), val: OpaqueV{tag: tag}}}, nilG: Not(bad)}
		return TupleV{Ite(bad, BV(64, 0), val), errv}, true
	case "regexp.Compile", "regexp.MustCompile":
		lit := argStr(args[0])
		obj := a.alloc(StructV{f: []Value{ConcStr(lit)}})
		in.events = append(in.events, "regexp "+lit)
		in.regexLits = append(in.regexLits, lit)
		if name == "regexp.MustCompile" {
			return ptrTo(obj), true
		}
		return TupleV{ptrTo(obj), nilIface()}, true
	case "(*regexp.Regexp).MatchString":
		re := args[0].(PtrV)
		lit := a.load(re).(StructV).f[0].(StrV)
		s0 := args[1].(StrV)
		return UF("regexp.MatchString", BoolSort, strID(lit), strID(s0)), true
	case "(*regexp.Regexp).String":
		return a.load(args[0].(PtrV)).(StructV).f[0], true
	case "math/rand.Read", "crypto/rand.Read":
		sl := args[0].(SliceV)
		for _, al := range sl.arr.alts {
			arr := navigate(a.st.heap[al.obj].v, al.path).(ArrayV)
			ne := make([]Value, len(arr.e))
			copy(ne, arr.e)
			for i := sl.off; i < len(ne); i++ {
				ne[i] = in.fresh("rand", BVS(8))
			}
			a.st.heap[al.obj] = nv(update(a.st.heap[al.obj].v, al.path, ArrayV{e: ne}))
		}
		return TupleV{sl.len, nilIface()}, true
	case "hash/crc32.New":
		// opaque CRC hash object: polynomial, number of writes since the last Reset, current sum
		tab := args[0].(PtrV)
		poly := navigate(a.st.heap[tab.alts[0].obj].v, tab.alts[0].path).(ArrayV).e[0].(*Term)
		obj := a.alloc(StructV{f: []Value{poly, BV(8, 0), BV(32, 0)}})
		return IfaceV{alts: []IfaceAlt{{g: True, typ: in.opaqueType("crc32"), val: ptrTo(obj)}}, nilG: False}, true
	case "crypto/sha256.New":
		// opaque hash object: ghost record of what was written
		obj := a.alloc(StructV{f: []Value{BV(64, 0)}})
		if in.hashWrites == nil {
			in.hashWrites = map[int][]SliceV{}
		}
		return IfaceV{alts: []IfaceAlt{{g: True, typ: in.opaqueType("sha256"), val: ptrTo(obj)}}, nilG: False}, true
	case "(*sync.Cond).Broadcast", "(*sync.Cond).Signal":
		in.events = append(in.events, "cond.Broadcast")
		id := a.condGhost(args[0].(PtrV))
		a.st.heap[id] = nv(Value(BvBin("bvadd", a.st.heap[id].v.(*Term), BV(8, 1))))
		return nil, true
	case "(*sync.Cond).Wait":
		// Wait: the caller must hold c.L; L is released, the goroutine blocks (other goroutines run:
		// harness hook verifOnBlock), it is woken only by a Broadcast/Signal issued meanwhile, then
		// L is re-acquired.
		c := args[0].(PtrV)
		id := a.condGhost(c)
		cv := a.load(c).(StructV)
		var L IfaceV
		for _, f := range cv.f {
			if iv, ok := f.(IfaceV); ok {
				L = iv
				break
			}
		}
		lockerT := fv.fn.Pkg.Pkg.Scope().Lookup("Locker").Type().Underlying().(*types.Interface)
		var unlockM, lockM *types.Func
		for i := 0; i < lockerT.NumMethods(); i++ {
			switch lockerT.Method(i).Name() {
			case "Lock":
				lockM = lockerT.Method(i)
			case "Unlock":
				unlockM = lockerT.Method(i)
			}
		}
		before := a.st.heap[id].v.(*Term)
		a.invoke(invokeTarget{recv: L, method: unlockM}, nil)
		a.blockingPoint("cond.Wait")
		after := a.st.heap[id].v.(*Term)
		a.deadlockIf(Eq(before, after), "cond.Wait never woken: no Broadcast/Signal can follow")
		a.invoke(invokeTarget{recv: L, method: lockM}, nil)
		return nil, true
	case "time.NewTicker":
		ch := a.alloc(ChanData{closed: False, ticker: true})
		tk := in.zeroVal(fv.fn.Signature.Results().At(0).Type().(*types.Pointer).Elem()).(StructV)
		nf := make([]Value, len(tk.f))
		copy(nf, tk.f)
		nf[0] = ptrTo(ch)
		return ptrTo(a.alloc(StructV{f: nf})), true
	case "(*time.Ticker).Stop":
		return nil, true

	case "strings.Join":
		return StrV{id: in.fresh("join", BVS(32))}, true
	}
	switch name {
	case "(*sync.RWMutex).Lock", "(*sync.Mutex).Lock", "(*sync.RWMutex).Unlock", "(*sync.Mutex).Unlock", "(*sync.RWMutex).RLock", "(*sync.RWMutex).RUnlock":
		p := args[0].(PtrV)
		a.mayPanic(p.nilG, "nil mutex")
		op := name[strings.LastIndex(name, ".")+1:]
		if (op == "Lock" || op == "RLock") && len(p.alts) == 1 && !in.isHarnessFn(a.fn) {
			k := fmt.Sprintf("%d:%v", p.alts[0].obj, p.alts[0].path)
			if in.lockHist == nil {
				in.lockHist = map[string]int{}
			}
			in.lockHist[k]++
			if hook := in.harnessPkg.Func("verifOnLock"); hook != nil && !in.inHook && in.lockHist[k] >= in.lockHookFrom() {
				in.inHook = true
				a.callFunc(FuncV{fn: hook}, nil)
				in.inHook = false
			}
		}
		bad := False
		type upd struct {
			k    string
			w, r *Term
		}
		var upds []upd
		for _, al := range p.alts {
			k := fmt.Sprintf("%d:%v", al.obj, al.path)
			w, r := a.lockState(k)
			nw, nr := w, r
			switch op {
			case "Lock":
				bad = Or(bad, And(al.g, Or(w, Not(Eq(r, BV(8, 0))))))
				nw = True
			case "Unlock":
				bad = Or(bad, And(al.g, Not(w)))
				nw = False
			case "RLock":
				bad = Or(bad, And(al.g, w))
				if !in.isHarnessFn(a.fn) {
					// recursive read locking is prohibited (sync.RWMutex): once a writer is waiting - any
					// balancer callback, completion or pick may be one - the second RLock blocks forever
					// while the first is never released
					in.obligation(And(a.g, al.g), "rlock", "recursive read lock: RLock on a RWMutex this call already read-holds in "+a.fn.String()+" (deadlocks as soon as a writer is waiting)", Not(Eq(r, BV(8, 0))))
				}
				nr = BvBin("bvadd", r, BV(8, 1))
			case "RUnlock":
				bad = Or(bad, And(al.g, Eq(r, BV(8, 0))))
				nr = BvBin("bvsub", r, BV(8, 1))
			}
			upds = append(upds, upd{k, Ite(al.g, nw, w), Ite(al.g, nr, r)})
		}
		if op == "Lock" || op == "RLock" {
			a.deadlockIf(bad, op+" on a mutex already held by this call")
		} else {
			a.mayPanic(bad, op+" of unlocked mutex")
		}
		for _, u := range upds {
			a.st.locks[u.k], a.st.rlock[u.k] = u.w, u.r
		}
		return nil, true
	case "sync/atomic.AddInt32", "sync/atomic.AddUint32":
		p := args[0].(PtrV)
		a.atomicOp = true
		nvl := BvBin("bvadd", a.load(p).(*Term), args[1].(*Term))
		a.store(p, nvl)
		a.atomicOp = false
		return nvl, true
	case "sync/atomic.CompareAndSwapInt32", "sync/atomic.CompareAndSwapUint32":
		// Between the value the caller read earlier and this operation another goroutine may have
		// updated the cell atomically (interference: +1, e.g. another call started on the channel;
		// always possible below the stated bound of 2^30 on counters): then the comparison fails.
		// Only the first compare-and-swap operation of a run is interfered with, so that a
		// retry loop ends within the unwinding bound.  The ghost sum of interference per cell is
		// what the harness adds to its expectation (verifCasDelta): a correct retry loop passes, a
		// lost update shows.  Natively verifCAS32 applies the same interference before the real CAS.
		p := args[0].(PtrV)
		a.atomicOp = true
		cur := a.load(p).(*Term)
		if !in.isHarnessFn(a.fn) && len(p.alts) == 1 && in.casOps < 1 {
			in.casOps++
			interf := in.named("casInterfered@", BoolSort)
			in.assume(Or(Not(And(a.g, interf)), BvCmp("bvult", cur, BV(32, 1<<30-4))))
			d := Ite(interf, BV(32, 1), BV(32, 0))
			cur = BvBin("bvadd", cur, d)
			k := fmt.Sprintf("%d:%v", p.alts[0].obj, p.alts[0].path)
			if in.casDelta == nil {
				in.casDelta = map[string]*Term{}
			}
			prev, ok := in.casDelta[k]
			if !ok {
				prev = BV(32, 0)
			}
			in.casDelta[k] = BvBin("bvadd", prev, Ite(a.g, d, BV(32, 0)))
		}
		okc := Eq(cur, args[1].(*Term))
		a.store(p, Ite(okc, args[2].(*Term), cur))
		a.atomicOp = false
		return okc, true
	case "sync/atomic.LoadInt32", "sync/atomic.LoadUint32":
		a.atomicOp = true
		r := a.load(args[0].(PtrV))
		a.atomicOp = false
		if in.flags["atomicHavoc"] && !in.isHarnessFn(a.fn) {
			// other goroutines may have updated the cell atomically since this call last touched it:
			// an atomic load in the code under test observes an arbitrary value
			return in.named("atomicLoad@", r.(*Term).sort), true
		}
		return r, true
	case "sync/atomic.StoreInt32", "sync/atomic.StoreUint32":
		a.atomicOp = true
		a.store(args[0].(PtrV), args[1])
		a.atomicOp = false
		return nil, true
	case "time.Now":
		if vn := in.harnessPkg.Func("verifNow"); vn != nil && a.fn != vn {
			return a.callFunc(FuncV{fn: vn}, nil), true
		}
		return in.timeVal(in.fresh("now", BVS(64))), true
	case "time.Unix":
		sec, ns := args[0].(*Term), args[1].(*Term)
		return in.timeVal(BvBin("bvadd", BvBin("bvmul", sec, BV(64, 1000000000)), ns)), true
	case "(time.Time).Equal":
		return Eq(args[0].(StructV).f[1].(*Term), args[1].(StructV).f[1].(*Term)), true
	case "(time.Time).IsZero":
		return Eq(args[0].(StructV).f[1].(*Term), BV(64, 0)), true
	case "(time.Time).UnixNano":
		return args[0].(StructV).f[1].(*Term), true
	case "(time.Time).Before":
		return BvCmp("bvslt", args[0].(StructV).f[1].(*Term), args[1].(StructV).f[1].(*Term)), true
	case "(time.Time).After":
		return BvCmp("bvsgt", args[0].(StructV).f[1].(*Term), args[1].(StructV).f[1].(*Term)), true
	case "(time.Time).Add":
		return in.timeVal(BvBin("bvadd", args[0].(StructV).f[1].(*Term), args[1].(*Term))), true
	case "(time.Time).Sub":
		return BvBin("bvsub", args[0].(StructV).f[1].(*Term), args[1].(StructV).f[1].(*Term)), true
	case "google.golang.org/grpc/status.Code":
		sum := in.harnessPkg.Func("verifStatusCode")
		if sum == nil {
			panic(unsupported("no verifStatusCode in harness"))
		}
		return a.callFunc(FuncV{fn: sum}, args), true
	case "fmt.Sprintf", "fmt.Sprint", "fmt.Sprintln":
		if name == "fmt.Sprintf" {
			// concrete folding: a constant format over concrete strings is computed by the real function
			if f, ok := args[0].(StrV); ok && f.conc && len(args) == 2 {
				if xs, ok := a.concStrings(args[1], true); ok {
					ifs := make([]interface{}, len(xs))
					for i := range xs {
						ifs[i] = xs[i]
					}
					return ConcStr(fmt.Sprintf(f.s, ifs...)), true
				}
			}
		}
		return StrV{id: in.fresh("fmt", BVS(32))}, true
	case "path.Join", "path.Clean", "path/filepath.Join", "path/filepath.Clean":
		// pure string functions: computed by the real function on concrete strings, unsupported otherwise
		if strings.HasSuffix(name, ".Clean") {
			if x, ok := args[0].(StrV); ok && x.conc {
				return ConcStr(path.Clean(x.s)), true
			}
		} else if xs, ok := a.concStrings(args[0], false); ok {
			return ConcStr(path.Join(xs...)), true
		}
		panic(unsupported(name + " on a symbolic string"))
	case "fmt.Errorf", "errors.New":
		tag := fmt.Sprintf("err#%d", in.nextObj)
		in.nextObj++
		return IfaceV{alts: []IfaceAlt{{g: True, typ: in.opaqueType(tag), val: OpaqueV{tag: tag}}}, nilG: False}, true
	case "google.golang.org/grpc/grpclog.Infof", "google.golang.org/grpc/grpclog.Warningf", "google.golang.org/grpc/grpclog.Errorf":
		return nil, true
	}
	if strings.HasSuffix(name, ".NewGCPLogger") {
		rt := fv.fn.Signature.Results().At(0).Type().(*types.Pointer).Elem()
		return ptrTo(a.alloc(in.zeroVal(rt))), true
	}
	if strings.Contains(name, "gcpLogger).") {
		if strings.HasSuffix(name, ").V") {
			return in.named("verbose", BoolSort), true
		}
		return nil, true
	}
	// summaries written in the harness: (*grpc.ClientConn).X -> verifConnX, context.WithCancel -> verifWithCancel, grpc.WithX -> opaque option
	if strings.HasPrefix(name, "(*google.golang.org/grpc.ClientConn).") {
		sum := in.harnessPkg.Func("verifConn" + name[strings.LastIndex(name, ".")+1:])
		if sum == nil {
			panic(unsupported("no harness summary for " + name))
		}
		return a.callFunc(FuncV{fn: sum}, args), true
	}
	if name == "google.golang.org/protobuf/encoding/protojson.Unmarshal" || name == "(google.golang.org/protobuf/encoding/protojson.UnmarshalOptions).Unmarshal" {
		// the reflection-driven parser is replaced by the harness summary verifPJUnmarshal(j, m, allowPartial, discardUnknown)
		sum := in.harnessPkg.Func("verifPJUnmarshal")
		if sum == nil {
			panic(unsupported("no harness summary for " + name))
		}
		if len(args) == 2 {
			return a.callFunc(FuncV{fn: sum}, []Value{args[0], args[1], False, False}), true
		}
		opt, ok := args[0].(StructV)
		st, ok2 := fv.fn.Signature.Recv().Type().Underlying().(*types.Struct)
		if !ok || !ok2 {
			panic(unsupported("protojson.UnmarshalOptions receiver"))
		}
		var ap, du Value = False, False
		for i := 0; i < st.NumFields(); i++ {
			switch st.Field(i).Name() {
			case "AllowPartial":
				ap = opt.f[i]
			case "DiscardUnknown":
				du = opt.f[i]
			}
		}
		return a.callFunc(FuncV{fn: sum}, []Value{args[1], args[2], ap, du}), true
	}
	if name == "context.WithCancel" {
		return a.callFunc(FuncV{fn: in.harnessPkg.Func("verifWithCancel")}, args), true
	}
	if name == "context.WithValue" {
		obj := a.alloc(StructV{f: []Value{args[0], args[1], args[2]}})
		return IfaceV{alts: []IfaceAlt{{g: True, typ: in.opaqueType("valueCtx"), val: ptrTo(obj)}}, nilG: False}, true
	}
	if name == "context.Background" {
		return nilIface(), true
	}
	if strings.HasPrefix(name, "google.golang.org/grpc.With") {
		tag := fmt.Sprintf("dialopt#%d", in.nextObj)
		in.nextObj++
		return IfaceV{alts: []IfaceAlt{{g: True, typ: in.opaqueType(tag), val: OpaqueV{tag: tag}}}, nilG: False}, true
	}
	bn := baseName(name)
	if bn == "getAffinityKeysFromMessage" && !in.realKeys {
		sum := in.harnessPkg.Func("verifKeysSummary")
		if sum == nil {
			panic(unsupported("no verifKeysSummary in harness"))
		}
		return a.callFunc(FuncV{fn: sum}, args), true
	}
	if !strings.HasPrefix(bn, "verif") {
		return nil, false
	}
	switch bn {
	case "verifD":
		t := args[0].(*Term)
		if !t.IsConst() {
			panic(unsupported("verifD of a symbolic index"))
		}
		return ConcStr(strconv.Itoa(int(sext(t.val, t.sort.W)))), true
	case "verifBool":
		return in.named(argStr(args[0]), BoolSort), true
	case "verifU8", "verifU32", "verifI32", "verifU64", "verifInt", "verifI64":
		w := map[string]int{"verifU8": 8, "verifU32": 32, "verifI32": 32, "verifU64": 64, "verifInt": 64, "verifI64": 64}[bn]
		return in.named(argStr(args[0]), BVS(w)), true
	case "verifTime":
		return in.timeVal(in.named(argStr(args[0]), BVS(64))), true
	case "verifF64":
		return in.named(argStr(args[0]), FPSort), true
	case "verifStr", "verifStrBuild":
		return StrV{id: in.named(argStr(args[0]), BVS(32))}, true
	case "verifAssume":
		c := args[0].(*Term)
		in.assume(Implies(a.g, c))
		if c.IsFalse() {
			a.kill()
		}
		return nil, true
	case "verifAssert":
		c := args[0].(*Term)
		in.obligation(a.g, "assert", argStr(args[1]), Not(c))
		return nil, true
	case "verifBatch":
		if args[0].(*Term).IsTrue() {
			in.batchDepth++
		} else {
			in.batchDepth--
			if in.batchDepth == 0 {
				l := in.batch
				in.batch = nil
				in.flush(l)
			}
		}
		return nil, true
	case "verifGuardedBy":
		// verifGuardedBy(&x.field, &x.mu, "name"): every non-atomic write to the cell by the code under test must hold the mutex (write mode)
		unwrap := func(v Value) PtrV {
			if iv, ok := v.(IfaceV); ok && len(iv.alts) == 1 {
				v = iv.alts[0].val
			}
			p, ok := v.(PtrV)
			if !ok {
				panic(unsupported("verifGuardedBy needs pointers"))
			}
			return p
		}
		cell, mu := unwrap(args[0]), unwrap(args[1])
		if len(cell.alts) != 1 || len(mu.alts) != 1 {
			panic(unsupported("verifGuardedBy needs concrete pointers"))
		}
		in.guarded = append(in.guarded, guardedCell{obj: cell.alts[0].obj, path: fmt.Sprint(cell.alts[0].path), mu: fmt.Sprintf("%d:%v", mu.alts[0].obj, mu.alts[0].path), name: argStr(args[2])})
		return nil, true
	case "verifFairSelect":
		in.fairSelect = args[0].(*Term).IsTrue()
		return nil, true
	case "verifLockHookFrom":
		// P3 arming: run the verifOnLock hook from the n-th acquisition of a mutex on (default 2:
		// re-acquisitions only; 1: also the first acquisition - check-then-lock patterns)
		in.lockHookMin = int(args[0].(*Term).val)
		return nil, true
	case "verifResetLocks":
		// forget earlier acquisitions: the next Lock/RLock of each mutex is "the first" again (P3 arming)
		in.lockHist = map[string]int{}
		return nil, true
	case "verifNarrow":
		// simplify a value under the facts known at this point: alternatives of pointer / interface
		// unions and ite-terms whose condition is decided are resolved (no change of meaning)
		return a.narrow(args[0], 0), true
	case "verifKnown":
		id := argStr(args[0])
		c := And(a.g, args[1].(*Term))
		if old, ok := in.knownCond[id]; ok {
			c = Or(old, c)
		}
		in.knownCond[id] = c
		return nil, true
	case "verifObserve":
		switch t := args[1].(type) {
		case *Term:
			in.observes = append(in.observes, Observe{argStr(args[0]), t, a.g})
		case StrV:
			in.observes = append(in.observes, Observe{argStr(args[0]), strID(t), a.g})
		default:
			panic(unsupported("verifObserve of non-scalar"))
		}
		return nil, true
	case "verifFlag":
		return BoolC(in.flags[argStr(args[0])]), true
	case "verifBytesEqual":
		x, y := args[0].(SliceV), args[1].(SliceV)
		if !x.len.IsConst() || !y.len.IsConst() {
			panic(unsupported("verifBytesEqual on slices of symbolic length"))
		}
		if x.len.val != y.len.val {
			return False, true
		}
		eq := True
		for i := 0; i < int(x.len.val); i++ {
			eq = And(eq, Eq(a.sliceElem(x, i).(*Term), a.sliceElem(y, i).(*Term)))
		}
		return eq, true
	case "verifCondBroadcasts":
		// how often the condition variable was signalled so far (ghost counter)
		id := a.condGhost(args[0].(PtrV))
		return ZeroExt(a.st.heap[id].v.(*Term), 64), true
	case "verifNeedsWaiter":
		// the caller cannot proceed until the goroutine waiting on c makes progress: if c has not been
		// signalled since `since`, that goroutine is still asleep and nobody is left to wake it
		id := a.condGhost(args[0].(PtrV))
		since := args[1].(*Term)
		a.deadlockIf(Eq(ZeroExt(a.st.heap[id].v.(*Term), 64), since), "a send inside the underlying stream needs the receiver, which still waits to be told that the stream exists")
		return nil, true
	case "verifSymbolic":
		return True, true
	case "verifCase":
		// a case split decided per job ("-flag name=3"): constant here, so the SSA paths of the
		// other cases fold away; without the flag the value is an ordinary symbolic int
		name := argStr(args[0])
		for f := range in.flags {
			if strings.HasPrefix(f, name+"=") {
				v, err := strconv.Atoi(f[len(name)+1:])
				if err != nil {
					panic(unsupported("bad case flag " + f))
				}
				return BV(64, uint64(v)), true
			}
		}
		return in.named(name, BVS(64)), true
	case "verifRecord":
		in.recTag = argStr(args[0])
		if in.recTag != "" && in.firstRecObj == 0 {
			in.firstRecObj = in.nextObj
		}
		return nil, true
	case "verifSnapshot":
		in.snap = a.st.clone()
		return nil, true
	case "verifRestore":
		a.st = in.snap.clone()
		return nil, true
	case "verifPar":
		// two operations other goroutines may run concurrently: both are executed from the same
		// pre-state with every memory access recorded, then conflicting pairs are examined
		fa, fb := args[0].(FuncV), args[1].(FuncV)
		in.firstRecObj = in.nextObj
		snap := a.st.clone()
		in.recTag = "A"
		a.callFunc(fa, nil)
		in.recTag = "B"
		a.st = snap
		a.callFunc(fb, nil)
		in.recTag = ""
		in.raceCandidates(a)
		return nil, true
	case "verifRaceCandidates":
		in.raceCandidates(a)
		return nil, true
	case "verifHashArgsOK":
		// the digest slice was produced by a sha256 object that was written exactly the payload slice, once
		payload, sum := args[0].(SliceV), args[1].(SliceV)
		if len(sum.arr.alts) != 1 || len(payload.arr.alts) != 1 {
			return False, true
		}
		h, ok := in.hashSums[sum.arr.alts[0].obj]
		if !ok {
			return False, true
		}
		ws := in.hashWrites[h]
		if len(ws) != 1 || len(ws[0].arr.alts) != 1 || ws[0].arr.alts[0].obj != payload.arr.alts[0].obj || ws[0].off != payload.off {
			return False, true
		}
		return Eq(ws[0].len, payload.len), true
	case "verifMatched":
		c := False
		for _, l := range in.regexLits {
			c = Or(c, UF("regexp.MatchString", BoolSort, strID(ConcStr(l)), strID(args[0].(StrV))))
		}
		return c, true
	case "verifSegmentsOK":
		return True, true
	case "verifCasDelta":
		p := args[0].(PtrV)
		if len(p.alts) == 1 {
			if d, ok := in.casDelta[fmt.Sprintf("%d:%v", p.alts[0].obj, p.alts[0].path)]; ok {
				return d, true
			}
		}
		return BV(32, 0), true
	case "verifCrcOf":
		if c := in.crcLookup(args[0].(SliceV)); c != nil {
			return c.val, true
		}
		return in.named("crc", BVS(32)), true
	case "verifCrcArgsOK":
		// checksum was computed over exactly this slice with the Castagnoli polynomial
		want := args[0].(SliceV)
		c := in.crcLookup(want)
		if c == nil || !c.poly.IsConst() || c.poly.val != 0x82f63b78 {
			return False, true
		}
		return Eq(c.data.len, want.len), true
	case "verifReach":
		if in.sat(a.g) {
			in.reach[argStr(args[0])] = "reachable"
		} else {
			in.reach[argStr(args[0])] = "UNREACHABLE"
		}
		return nil, true
	case "verifLocksFree":
		c := True
		for k := range a.st.locks {
			w, r := a.lockState(k)
			c = And(c, Not(w), Eq(r, BV(8, 0)))
		}
		return c, true
	case "verifChoose":
		xs := args[1].(SliceV)
		n := int(xs.len.val)
		idx := in.named(argStr(args[0]), BVS(8))
		in.assume(BvCmp("bvult", idx, BV(8, uint64(n))))
		res := a.sliceElem(xs, n-1)
		for i := n - 2; i >= 0; i-- {
			res = iteVal(Eq(idx, BV(8, uint64(i))), a.sliceElem(xs, i), res)
		}
		return res, true
	case "verifOrElse":
		if p, ok := args[0].(PtrV); ok {
			return iteVal(p.nilG, args[1], PtrV{alts: p.alts, nilG: False}), true
		}
		panic(unsupported("verifOrElse"))
	case "verifMapPut":
		m := args[0].(MapV)
		key, v, pres := args[1], args[2], args[3].(*Term)
		md := a.st.heap[m.obj].v.(MapData)
		ne := make([]MapEntry, len(md.entries))
		copy(ne, md.entries)
		hit := False
		for i, e := range ne {
			c := And(e.present, valEq(e.key, key))
			ne[i].val = iteVal(And(c, pres), v, e.val)
			hit = Or(hit, c)
		}
		ne = append(ne, MapEntry{key: key, present: And(pres, Not(hit)), val: v})
		a.st.heap[m.obj] = nv(MapData{entries: ne})
		return nil, true
	}
	return nil, false
}

// raceCandidates pairs the recorded accesses of run "A" and run "B" (same pre-state) on objects that
// existed before the runs: same cell, at least one write, not both atomic, and - decided by the
// solver - both paths feasible with no common lock (one side exclusive).
func (in *Interp) raceCandidates(a *Act) {
	seen := map[string]bool{}
	pairs, queries := 0, 0
	for _, x := range in.accesses {
		if x.tag != "A" || x.obj >= in.firstRecObj {
			continue
		}
		for _, y := range in.accesses {
			if y.tag != "B" || y.obj != x.obj || y.path != x.path || !(x.write || y.write) || (x.atomic && y.atomic) {
				continue
			}
			pairs++
			desc := x.desc
			if desc == "" {
				desc = y.desc
			}
			label := fmt.Sprintf("%s: %s (%s) || %s (%s)", desc, x.site, rw(x.write), y.site, rw(y.write))
			if seen[label] {
				continue
			}
			common := False
			for k, ex := range x.excl {
				if sy, ok := y.shared[k]; ok {
					common = Or(common, And(ex, sy))
				}
				if ey, ok := y.excl[k]; ok {
					common = Or(common, And(ey, x.shared[k]))
				}
			}
			queries++
			in.obligations++
			in.sample("race", label)
			if !in.satK("race", x.g, y.g, Not(common)) {
				in.discharged++
				continue
			}
			seen[label] = true
			f := Finding{Kind: "race", Label: label, Model: in.solver.Model(in.vars), Where: x.site + " / " + y.site}
			for _, k := range in.knownFor("race", label) {
				f.Known = k.ID
			}
			in.findings = append(in.findings, f)
		}
	}
	in.events = append(in.events, fmt.Sprintf("race pairs=%d queries=%d candidates=%d", pairs, queries, len(seen)))
	in.accesses = nil
}

func rw(w bool) string {
	if w {
		return "W"
	}
	return "R"
}

func (a *Act) narrowTerm(t *Term) *Term {
	for t.op == "ite" {
		c := t.args[0]
		if !a.in.satK("narrow", a.g, c) {
			t = t.args[2]
		} else if !a.in.satK("narrow", a.g, Not(c)) {
			t = t.args[1]
		} else {
			break
		}
	}
	return t
}

func (a *Act) narrow(v Value, depth int) Value {
	if depth > 3 {
		return v
	}
	switch x := v.(type) {
	case *Term:
		return a.narrowTerm(x)
	case StrV:
		if !x.conc {
			return StrV{id: a.narrowTerm(x.id)}
		}
		return x
	case PtrV:
		out := PtrV{nilG: x.nilG}
		for _, al := range x.alts {
			if a.in.satK("narrow", a.g, al.g) {
				out.alts = append(out.alts, al)
			}
		}
		if !out.nilG.IsFalse() && !a.in.satK("narrow", a.g, out.nilG) {
			out.nilG = False
		}
		if len(out.alts) == 1 && out.nilG.IsFalse() {
			out.alts[0].g = True
		}
		// also narrow what single-target pointers point at (closure cells, small structs)
		if len(out.alts) == 1 && len(out.alts[0].path) == 0 && depth < 2 {
			al := out.alts[0]
			if vs, ok := a.st.heap[al.obj]; ok {
				switch vs.v.(type) {
				case PtrV, IfaceV, *Term, StrV:
					a.st.heap[al.obj] = nv(a.narrow(vs.v, depth+1))
				}
			}
		}
		return out
	case IfaceV:
		out := IfaceV{nilG: x.nilG}
		for _, al := range x.alts {
			if a.in.satK("narrow", a.g, al.g) {
				al.val = a.narrow(al.val, depth+1)
				out.alts = append(out.alts, al)
			}
		}
		if !out.nilG.IsFalse() && !a.in.satK("narrow", a.g, out.nilG) {
			out.nilG = False
		}
		if len(out.alts) == 1 && out.nilG.IsFalse() {
			out.alts[0].g = True
		}
		return out
	case FuncV:
		r := x
		r.bind = nil
		for _, b := range x.bind {
			r.bind = append(r.bind, a.narrow(b, depth+1))
		}
		return r
	case StructV:
		r := StructV{f: make([]Value, len(x.f))}
		for i := range x.f {
			r.f[i] = a.narrow(x.f[i], depth+1)
		}
		return r
	}
	return v
}

// deepClone copies the object graph reachable from v (pointers, slices, maps, structs).
func (a *Act) deepClone(v Value, t types.Type, depth int) Value {
	if depth > 8 {
		panic(unsupported("deepClone depth"))
	}
	switch u := t.Underlying().(type) {
	case *types.Pointer:
		p := v.(PtrV)
		out := PtrV{nilG: p.nilG}
		for _, al := range p.alts {
			if len(al.path) != 0 {
				panic(unsupported("deepClone of an interior pointer"))
			}
			old := a.st.heap[al.obj].v
			id := a.alloc(a.deepClone(old, u.Elem(), depth+1))
			out.alts = append(out.alts, PtrAlt{g: al.g, obj: id})
		}
		return out
	case *types.Struct:
		sv := v.(StructV)
		r := StructV{f: make([]Value, len(sv.f))}
		for i := range sv.f {
			ft := u.Field(i).Type()
			if !u.Field(i).Exported() {
				r.f[i] = a.in.zeroVal(ft) // internal message state is not part of the value
				continue
			}
			r.f[i] = a.deepClone(sv.f[i], ft, depth+1)
		}
		return r
	case *types.Slice:
		sl := v.(SliceV)
		if len(sl.arr.alts) == 0 {
			return sl
		}
		out := SliceV{arr: PtrV{nilG: sl.arr.nilG}, off: 0, len: sl.len, cap: sl.cap}
		for _, al := range sl.arr.alts {
			arr := navigate(a.st.heap[al.obj].v, al.path).(ArrayV)
			n := len(arr.e) - sl.off
			na := ArrayV{e: make([]Value, n)}
			for i := 0; i < n; i++ {
				na.e[i] = a.deepClone(arr.e[sl.off+i], u.Elem(), depth+1)
			}
			out.arr.alts = append(out.arr.alts, PtrAlt{g: al.g, obj: a.alloc(na)})
		}
		return out
	case *types.Map:
		m := v.(MapV)
		if m.obj == 0 {
			return m
		}
		md := a.st.heap[m.obj].v.(MapData)
		nd := MapData{}
		for _, e := range md.entries {
			nd.entries = append(nd.entries, MapEntry{key: e.key, present: e.present, val: a.deepClone(e.val, u.Elem(), depth+1)})
		}
		return MapV{obj: a.alloc(nd)}
	case *types.Interface:
		iv := v.(IfaceV)
		out := IfaceV{nilG: iv.nilG}
		for _, al := range iv.alts {
			out.alts = append(out.alts, IfaceAlt{g: al.g, typ: al.typ, val: a.deepClone(al.val, al.typ, depth+1)})
		}
		return out
	}
	return v
}

// mapStrLeaves rebuilds an ite-tree of interned string constants with f applied to every leaf.
func mapStrLeaves(t *Term, f func(string) string) *Term {
	if t.IsConst() {
		str, ok := strByID(t.val)
		if !ok {
			panic(unsupported("string operation on an unknown string id"))
		}
		return strID(ConcStr(f(str)))
	}
	if t.op == "ite" {
		return Ite(t.args[0], mapStrLeaves(t.args[1], f), mapStrLeaves(t.args[2], f))
	}
	panic(unsupported("string operation on a symbolic string"))
}

// condGhost returns the heap object holding the ghost broadcast counter of a sync.Cond.
func (a *Act) condGhost(c PtrV) int {
	in := a.in
	if len(c.alts) != 1 {
		panic(unsupported("sync.Cond through a symbolic pointer"))
	}
	k := fmt.Sprintf("%d:%v", c.alts[0].obj, c.alts[0].path)
	if in.condObjs == nil {
		in.condObjs = map[string]int{}
	}
	id, ok := in.condObjs[k]
	if !ok {
		id = in.nextObj
		in.nextObj++
		in.condObjs[k] = id
	}
	if _, ok := a.st.heap[id]; !ok {
		a.st.heap[id] = VS{Value(BV(8, 0)), -id}
	}
	return id
}

// mapStrLeavesTerm maps every leaf of an ite-tree of interned string constants to a term.
func mapStrLeavesTerm(t *Term, f func(string) *Term) (*Term, bool) {
	if t.IsConst() {
		str, ok := strByID(t.val)
		if !ok {
			return nil, false
		}
		return f(str), true
	}
	if t.op == "ite" {
		a, ok1 := mapStrLeavesTerm(t.args[1], f)
		b, ok2 := mapStrLeavesTerm(t.args[2], f)
		if !ok1 || !ok2 {
			return nil, false
		}
		return Ite(t.args[0], a, b), true
	}
	return nil, false
}

func (in *Interp) lockHookFrom() int {
	if in.lockHookMin > 0 {
		return in.lockHookMin
	}
	return 2
}

// concStrings reads a slice of concrete strings (boxed: a slice of interfaces holding strings).
func (a *Act) concStrings(v Value, boxed bool) ([]string, bool) {
	sl, ok := v.(SliceV)
	if !ok || !sl.len.IsConst() {
		return nil, false
	}
	n := int(sl.len.val)
	out := make([]string, 0, n)
	for i := 0; i < n; i++ {
		e := a.sliceElem(sl, i)
		if boxed {
			iv, ok := e.(IfaceV)
			if !ok || len(iv.alts) != 1 {
				return nil, false
			}
			e = iv.alts[0].val
		}
		x, ok := e.(StrV)
		if !ok || !x.conc {
			return nil, false
		}
		out = append(out, x.s)
	}
	return out, true
}
