package main

import (
	"crypto/sha1"
	"encoding/json"
	"flag"
	"fmt"
	"os"
	"os/exec"
	"path/filepath"
	"sort"
	"strconv"
	"strings"
	"sync"
	"time"
)

// Job is one symbolic run: one harness entry of one package.
type Job struct {
	Dir     string   // package dir relative to the repository root
	Harness string   // dir under /verif/harness
	Entry   string   // VerifH_* function
	Unroll  int      // loop bound for code under test
	Logic   string   // SMT logic (default QF_BV)
	Solver  string   // primary solver (default cvc5)
	Flags   []string // verifFlag names that are true
	Tier    string   // "" = both tiers, "thorough" = thorough only, "quick" = quick only
	TmoMs   int      // per-query timeout
	NoReplay bool    // witness replay not meaningful (e.g. race harness with snapshot/restore)
	ReplayEntry string // entry whose native run demonstrates a counterexample of this job (P7)
	Note    string
}

// Prop describes how one property is decided.
type Prop struct {
	ID       string
	Jobs     []Job
	Panics   bool // feasible panics in these jobs violate the property
	Progress bool // deadlock / spin / lock-left-held findings violate the property
	Lockset  bool // writes to a guarded cell without its mutex violate the property
	Races    bool // lockset race candidates (confirmed by the race detector) violate the property
	Level    string
	Assume   []string
	Bounds   map[string]string
}

type jobOut struct {
	job Job
	res *RunResult
	err string
	wall float64
}

func (j Job) key() string { return j.Entry + strings.Join(j.Flags, "+") }

func cmdCheck(args []string) int {
	fs := flag.NewFlagSet("check", flag.ExitOnError)
	propID := fs.String("prop", "", "property id")
	tier := fs.String("tier", "quick", "quick|thorough")
	only := fs.String("only", "", "run only this entry (debugging)")
	keep := fs.Bool("keep", false, "keep per-job result files under /verif/out")
	fs.Parse(args)
	var prop *Prop
	for _, p := range allProps() {
		if p.ID == *propID {
			pp := p
			prop = &pp
		}
	}
	if prop == nil {
		fmt.Println("INCONCLUSIVE property=" + *propID + " reason=unknown property")
		return 2
	}
	t0 := time.Now()
	seed := 0
	if s := os.Getenv("VERIF_SEED"); s != "" {
		seed, _ = strconv.Atoi(s)
	}
	var jobs []Job
	for _, j := range prop.Jobs {
		if j.Tier != "" && j.Tier != *tier {
			continue
		}
		if *only != "" && j.Entry != *only {
			continue
		}
		if *tier == "thorough" {
			// the tier is a harness flag (wider universes): part of the job, so that replay files carry it
			j.Flags = append(append([]string{}, j.Flags...), "thorough")
		}
		jobs = append(jobs, j)
	}
	outDir := filepath.Join(verifRoot(), "out", "runs", prop.ID)
	os.MkdirAll(outDir, 0o755)
	repoDirty0 := repoStatus()

	// symbolic runs, in parallel
	par := 12
	if s := os.Getenv("VERIF_JOBS"); s != "" {
		par, _ = strconv.Atoi(s)
	}
	outs := make([]jobOut, len(jobs))
	sem := make(chan struct{}, par)
	var wg sync.WaitGroup
	exe, _ := os.Executable()
	tmoScale := 1
	runJob := func(i int, j Job) {
		func() {
			ts := time.Now()
			of := filepath.Join(outDir, fmt.Sprintf("%s.%s.json", j.key(), *tier))
			os.Remove(of)
			a := []string{"run", "-dir", j.Dir, "-harness", j.Harness, "-entry", j.Entry, "-out", of, "-prop", prop.ID}
			if j.Unroll > 0 {
				a = append(a, "-unroll", strconv.Itoa(j.Unroll))
			}
			if j.Logic != "" {
				a = append(a, "-logic", j.Logic)
			}
			if j.Solver != "" {
				a = append(a, "-solver", j.Solver)
			}
			tmo := j.TmoMs
			if tmo == 0 {
				tmo = 20000
				if *tier == "thorough" {
					tmo = 90000
				}
			}
			tmo *= tmoScale
			a = append(a, "-timeout-ms", strconv.Itoa(tmo))
			if *tier == "thorough" {
				a = append(a, "-cross", "400", "-cross-budget", "300")
			} else {
				a = append(a, "-cross", "25")
			}
			for _, f := range j.Flags {
				a = append(a, "-flag", f)
			}
			// Go's append with its aliasing behaviour (in place when the capacity suffices, any
			// capacity in [needed, needed+6] after growth) in the balancer / interceptor / GCPMultiEndpoint / codec
			// jobs (the multiendpoint step harness gets 6x slower with it and has no slice reuse to find)
			if j.Harness == "grpcgcp" || j.Harness == "e2e-checksum" {
				a = append(a, "-flag", "appendCaps")
			}
			cmd := exec.Command(exe, a...)
			cmd.Env = append(os.Environ(), "VERIF_ROOT="+verifRoot())
			ob, err := cmd.CombinedOutput()
			o := jobOut{job: j, wall: time.Since(ts).Seconds()}
			if b, rerr := os.ReadFile(of); rerr == nil {
				r := &RunResult{}
				if json.Unmarshal(b, r) == nil {
					o.res = r
				}
			}
			if o.res == nil {
				o.err = fmt.Sprintf("engine produced no result (%v): %s", err, lastLines(string(ob), 6))
			}
			outs[i] = o
		}()
	}
	for i, j := range jobs {
		wg.Add(1)
		go func(i int, j Job) {
			defer wg.Done()
			sem <- struct{}{}
			defer func() { <-sem }()
			runJob(i, j)
		}(i, j)
	}
	wg.Wait()
	// a solver timeout (machine under load, unlucky query) is retried once, alone, with four times the
	// per-query budget before the job is declared inconclusive
	tmoScale = 4
	for i, j := range jobs {
		if outs[i].res != nil && strings.Contains(outs[i].res.Status, "solver unknown") {
			runJob(i, j)
		}
	}

	known := loadKnownSpecs()
	knownByID := map[string]KnownSpec{}
	for _, k := range known {
		knownByID[k.ID] = k
	}
	var inconclusive []string
	type viol struct {
		job Job
		f   Finding
	}
	var newFinds []viol
	knownSeen := map[string]string{}
	ev := newEvidence(prop, *tier, seed)
	for _, o := range outs {
		if o.res == nil {
			inconclusive = append(inconclusive, o.job.Entry+": "+o.err)
			continue
		}
		ev.addRun(o)
		if o.res.Status != "ok" {
			inconclusive = append(inconclusive, o.job.Entry+": "+o.res.Status)
		}
		seen := map[string]bool{}
		for _, f := range o.res.Findings {
			if !prop.relevant(f) {
				continue
			}
			if f.Known != "" {
				k := knownByID[f.Known]
				for _, pid := range k.Property {
					if pid == prop.ID {
						knownSeen[f.Known] = k.What
					}
				}
				continue
			}
			if f.Kind == "unwind" {
				inconclusive = append(inconclusive, o.job.Entry+": unwinding assertion failed: "+f.Label)
				continue
			}
			if seen[f.Kind+f.Label] {
				continue
			}
			seen[f.Kind+f.Label] = true
			newFinds = append(newFinds, viol{o.job, f})
		}
	}

	// vacuity: every reachability witness of an entry must be satisfiable in at least one of its jobs
	reach := map[string]bool{}
	for _, o := range outs {
		if o.res == nil {
			continue
		}
		for l, r := range o.res.Reach {
			k := o.job.Entry + ": " + l
			reach[k] = reach[k] || r == "reachable"
		}
	}
	for k, ok := range reach {
		if !ok {
			inconclusive = append(inconclusive, "reachability witness unsatisfiable (vacuous harness?): "+k)
		}
	}

	// native replays: witnesses (translator validation) and counterexamples
	var rq []replayReq
	for _, o := range outs {
		if o.res != nil && o.res.Status == "ok" && (len(o.res.Witness) > 0 || len(o.res.Observes) > 0) && !o.job.NoReplay {
			rq = append(rq, replayReq{job: o.job, kind: "witness", model: o.res.Witness, strs: o.res.Strings, tries: 1, obs: o.res.Observes})
		}
	}
	for _, v := range newFinds {
		var strs map[string]string
		for _, o := range outs {
			if o.res != nil && o.job.key() == v.job.key() {
				strs = o.res.Strings
			}
		}
		tries := 40
		if v.f.Kind == "race" {
			tries = 8
		}
		if v.f.Kind == "lockset" || v.f.Kind == "rlock" {
			tries = -1 // lock-discipline obligation: nothing a single-goroutine native run could show
		}
		rq = append(rq, replayReq{job: v.job, kind: v.f.Kind, label: v.f.Label, model: v.f.Model, strs: strs, tries: tries})
	}
	rres := runReplays(prop.ID, rq)
	violations := 0
	var vlines []string
	for i, r := range rres {
		q := rq[i]
		if q.kind == "witness" {
			switch {
			case r.err != "":
				inconclusive = append(inconclusive, q.job.Entry+": witness replay failed: "+r.err)
			case !r.reproduced:
				inconclusive = append(inconclusive, q.job.Entry+": the executor's witness path does not replay on the real build ("+r.outcome+")")
			case r.obsMismatch != "":
				inconclusive = append(inconclusive, q.job.Entry+": executor and real build disagree on an observed value: "+r.obsMismatch)
			default:
				ev.validated++
				ev.obsCompared += r.obsCompared
			}
			continue
		}
		if q.kind == "assert" && !r.reproduced && strings.HasPrefix(r.outcome, "assert:") {
			// natively another obligation fails first on this input: still a reproduced violation if that
			// obligation belongs to the same property
			if l := strings.TrimPrefix(r.outcome, "assert:"); prop.relevant(Finding{Kind: "assert", Label: l}) && strings.HasPrefix(l, "C") {
				r.reproduced = true
				r.outcome += " (an earlier obligation of the same property fails first natively)"
			}
		}
		if q.kind == "lockset" || q.kind == "rlock" {
			r.reproduced, r.outcome = true, "lock-discipline obligation, decided by the solver only (not natively replayable)"
		}
		if r.reproduced {
			violations++
			vlines = append(vlines, fmt.Sprintf("VIOLATION property=%s replay=%s", prop.ID, r.path))
			ev.violationNotes = append(ev.violationNotes, fmt.Sprintf("%s in %s: %s (replayed natively: %s)", q.kind, q.job.Entry, q.label, r.outcome))
		} else if q.kind == "race" {
			ev.unconfirmedRaces = append(ev.unconfirmedRaces, fmt.Sprintf("%s: %s [%s]", q.job.Entry, q.label, r.outcome))
		} else {
			inconclusive = append(inconclusive, fmt.Sprintf("%s: solver counterexample for %s %q did not reproduce natively (%s %s) — encoding or stub problem, replay file %s", q.job.Entry, q.kind, q.label, r.outcome, r.err, r.path))
		}
	}
	if st := repoStatus(); st != repoDirty0 {
		inconclusive = append(inconclusive, "the check changed files under the repository: "+st)
	}

	ids := make([]string, 0, len(knownSeen))
	for id := range knownSeen {
		ids = append(ids, id)
	}
	sort.Strings(ids)
	for _, id := range ids {
		fmt.Printf("KNOWN-FINDING: property=%s %s: %s\n", prop.ID, id, knownSeen[id])
		ev.knownSeen = append(ev.knownSeen, id)
	}
	for _, l := range vlines {
		fmt.Println(l)
	}
	for _, n := range ev.violationNotes {
		fmt.Println("  " + n)
	}
	for _, l := range inconclusive {
		fmt.Printf("INCONCLUSIVE property=%s reason=%s\n", prop.ID, l)
	}
	ev.violations = violations
	ev.inconclusive = inconclusive
	ev.wall = time.Since(t0).Seconds()
	ev.write()
	if !*keep {
		// per-job result files stay under /verif/out (ignored by git) for inspection
	}
	fmt.Printf("property=%s tier=%s jobs=%d obligations=%d discharged=%d queries=%d solver=%.1fs validated_traces=%d known_findings=%d violations=%d inconclusive=%d wall=%.1fs\n",
		prop.ID, *tier, len(jobs), ev.obligations, ev.discharged, ev.queries, ev.solverS, ev.validated, len(ids), violations, len(inconclusive), ev.wall)
	switch {
	case violations > 0:
		return 1
	case len(inconclusive) > 0:
		return 2
	}
	return 0
}

// relevant decides whether a finding counts for this property.
func (p *Prop) relevant(f Finding) bool {
	switch f.Kind {
	case "assert":
		i := strings.Index(f.Label, ":")
		if i < 0 || !strings.HasPrefix(f.Label, "C") {
			return true // harness sanity assertion
		}
		for _, id := range strings.Split(f.Label[:i], ",") {
			if strings.TrimSpace(id) == p.ID {
				return true
			}
		}
		return false
	case "panic":
		return p.Panics
	case "deadlock", "spin", "rlock":
		return p.Progress
	case "lockset":
		return p.Lockset
	case "race":
		return p.Races
	case "unwind":
		return true
	}
	return false
}

func repoStatus() string {
	cmd := exec.Command("git", "-C", repoRoot(), "status", "--porcelain")
	b, _ := cmd.Output()
	return string(b)
}

func lastLines(s string, n int) string {
	ls := strings.Split(strings.TrimSpace(s), "\n")
	if len(ls) > n {
		ls = ls[len(ls)-n:]
	}
	return strings.Join(ls, " | ")
}

func shortHash(s string) string {
	h := sha1.Sum([]byte(s))
	return fmt.Sprintf("%x", h[:5])
}
