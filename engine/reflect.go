package main

import (
	"go/types"
	"strings"
)

// RV models a reflect.Value as a guarded union of (static type, value); nil-guard = invalid Value.
type RV struct{ iv IfaceV }

func kindOf(t types.Type) uint64 {
	switch u := t.Underlying().(type) {
	case *types.Basic:
		switch u.Kind() {
		case types.Bool:
			return 1
		case types.Int:
			return 2
		case types.Int8:
			return 3
		case types.Int16:
			return 4
		case types.Int32:
			return 5
		case types.Int64:
			return 6
		case types.Uint:
			return 7
		case types.Uint8:
			return 8
		case types.Uint16:
			return 9
		case types.Uint32:
			return 10
		case types.Uint64:
			return 11
		case types.Uintptr:
			return 12
		case types.Float32:
			return 13
		case types.Float64:
			return 14
		case types.String:
			return 24
		case types.UnsafePointer:
			return 26
		}
	case *types.Array:
		return 17
	case *types.Chan:
		return 18
	case *types.Signature:
		return 19
	case *types.Interface:
		return 20
	case *types.Map:
		return 21
	case *types.Pointer:
		return 22
	case *types.Slice:
		return 23
	case *types.Struct:
		return 25
	}
	panic(unsupported("kindOf " + t.String()))
}

func (a *Act) reflectIntrinsic(name string, args []Value) (Value, bool) {
	if !strings.HasPrefix(name, "reflect.") && !strings.HasPrefix(name, "(reflect.Value).") {
		return nil, false
	}
	in := a.in
	switch name {
	case "reflect.ValueOf":
		return RV{iv: args[0].(IfaceV)}, true
	case "(reflect.Value).Kind":
		rv := args[0].(RV)
		k := BV(64, 0)
		for _, al := range rv.iv.alts {
			k = Ite(al.g, BV(64, kindOf(al.typ)), k)
		}
		return k, true
	case "(reflect.Value).Elem":
		rv := args[0].(RV)
		out := IfaceV{nilG: rv.iv.nilG}
		bad := rv.iv.nilG // Elem on the zero Value panics
		for _, al := range rv.iv.alts {
			switch u := al.typ.Underlying().(type) {
			case *types.Pointer:
				p := al.val.(PtrV)
				out.nilG = Or(out.nilG, And(al.g, p.nilG))
				if len(p.alts) > 0 {
					saveG := a.g
					a.g = And(a.g, al.g, Not(p.nilG))
					v := a.load(PtrV{alts: p.alts, nilG: False})
					a.g = saveG
					out.alts = append(out.alts, IfaceAlt{g: And(al.g, Not(p.nilG)), typ: u.Elem(), val: v})
				}
			case *types.Interface:
				inner := al.val.(IfaceV)
				out.nilG = Or(out.nilG, And(al.g, inner.nilG))
				for _, ia := range inner.alts {
					out.alts = append(out.alts, IfaceAlt{g: And(al.g, ia.g), typ: ia.typ, val: ia.val})
				}
			default:
				bad = Or(bad, al.g)
			}
		}
		a.mayPanic(bad, "reflect: call of reflect.Value.Elem on a value that is neither pointer nor interface")
		return RV{iv: mergeSameTypes(out)}, true
	case "(reflect.Value).FieldByName":
		rv := args[0].(RV)
		fname := args[1].(StrV)
		out := IfaceV{nilG: False}
		bad := rv.iv.nilG
		found := False
		for _, al := range rv.iv.alts {
			st, ok := al.typ.Underlying().(*types.Struct)
			if !ok {
				bad = Or(bad, al.g)
				continue
			}
			sv := al.val.(StructV)
			for j := 0; j < st.NumFields(); j++ {
				eq := valEq(ConcStr(st.Field(j).Name()), fname)
				g := And(al.g, eq)
				if g.IsFalse() {
					continue
				}
				found = Or(found, g)
				out.alts = append(out.alts, IfaceAlt{g: g, typ: st.Field(j).Type(), val: sv.f[j]})
			}
		}
		a.mayPanic(bad, "reflect: call of reflect.Value.FieldByName on non-struct Value")
		out.nilG = Not(found)
		return RV{iv: mergeSameTypes(out)}, true
	case "(reflect.Value).FieldByNameFunc":
		// the field whose name satisfies the predicate; the zero Value when none or several do
		rv := args[0].(RV)
		fn := args[1].(FuncV)
		out := IfaceV{nilG: False}
		bad := rv.iv.nilG
		found := False
		for _, al := range rv.iv.alts {
			st, ok := al.typ.Underlying().(*types.Struct)
			if !ok {
				bad = Or(bad, al.g)
				continue
			}
			sv := al.val.(StructV)
			match := make([]*Term, st.NumFields())
			for j := 0; j < st.NumFields(); j++ {
				m, ok := a.callFunc(fn, []Value{ConcStr(st.Field(j).Name())}).(*Term)
				if !ok {
					panic(unsupported("FieldByNameFunc predicate"))
				}
				match[j] = m
			}
			for j := 0; j < st.NumFields(); j++ {
				only := match[j]
				for k := 0; k < st.NumFields(); k++ {
					if k != j {
						only = And(only, Not(match[k]))
					}
				}
				g := And(al.g, only)
				if g.IsFalse() {
					continue
				}
				found = Or(found, g)
				out.alts = append(out.alts, IfaceAlt{g: g, typ: st.Field(j).Type(), val: sv.f[j]})
			}
		}
		a.mayPanic(bad, "reflect: call of reflect.Value.FieldByNameFunc on non-struct Value")
		out.nilG = Not(found)
		return RV{iv: mergeSameTypes(out)}, true
	case "(reflect.Value).IsNil":
		// nil-able kinds only (slice, pointer, interface, map, func, chan); panics on the others
		rv := args[0].(RV)
		res := False
		bad := rv.iv.nilG
		for _, al := range rv.iv.alts {
			switch v := al.val.(type) {
			case SliceV:
				res = Or(res, And(al.g, v.arr.nilG))
				if len(v.arr.alts) == 0 {
					res = Or(res, al.g)
				}
			case PtrV:
				res = Or(res, And(al.g, v.nilG))
			case IfaceV:
				res = Or(res, And(al.g, v.nilG))
			case MapV:
				if v.obj == 0 {
					res = Or(res, al.g)
				} else if v.nilG != nil {
					res = Or(res, And(al.g, v.nilG))
				}
			default:
				bad = Or(bad, al.g)
			}
		}
		a.mayPanic(bad, "reflect: call of reflect.Value.IsNil on a value that cannot be nil")
		return res, true
	case "(reflect.Value).Len":
		rv := args[0].(RV)
		n := BV(64, 0)
		bad := rv.iv.nilG
		for _, al := range rv.iv.alts {
			switch al.typ.Underlying().(type) {
			case *types.Slice:
				n = Ite(al.g, al.val.(SliceV).len, n)
			default:
				bad = Or(bad, al.g)
			}
		}
		a.mayPanic(bad, "reflect: call of reflect.Value.Len on a value without length")
		return n, true
	case "(reflect.Value).Index":
		rv := args[0].(RV)
		idx := args[1].(*Term)
		if !idx.IsConst() {
			panic(unsupported("reflect Index with symbolic index"))
		}
		out := IfaceV{nilG: False}
		bad := rv.iv.nilG
		for _, al := range rv.iv.alts {
			sl, ok := al.typ.Underlying().(*types.Slice)
			if !ok {
				bad = Or(bad, al.g)
				continue
			}
			sv := al.val.(SliceV)
			bad = Or(bad, And(al.g, Not(BvCmp("bvult", idx, sv.len))))
			if e := a.sliceElem(sv, int(idx.val)); e != nil {
				out.alts = append(out.alts, IfaceAlt{g: al.g, typ: sl.Elem(), val: e})
			}
		}
		a.mayPanic(bad, "reflect: Index out of range or on non-slice")
		return RV{iv: mergeSameTypes(out)}, true
	case "(reflect.Value).Interface":
		// the value as an interface: same dynamic types and values (unexported fields are not modelled
		// as inaccessible: the bounded type family reaches them through exported names only)
		rv := args[0].(RV)
		return rv.iv, true
	case "(reflect.Value).String":
		rv := args[0].(RV)
		var res Value = StrV{id: in.fresh("reflectString", BVS(32))}
		for _, al := range rv.iv.alts {
			if kindOf(al.typ) == 24 {
				res = iteVal(al.g, al.val, res)
			}
		}
		return res, true
	}
	panic(unsupported("reflect intrinsic " + name))
}

// mergeSameTypes folds alternatives with identical types into one (values merged under their guards).
func mergeSameTypes(iv IfaceV) IfaceV {
	out := IfaceV{nilG: iv.nilG}
outer:
	for _, al := range iv.alts {
		if al.g.IsFalse() {
			continue
		}
		for i := range out.alts {
			if types.Identical(out.alts[i].typ, al.typ) {
				out.alts[i].val = iteVal(al.g, al.val, out.alts[i].val)
				out.alts[i].g = Or(out.alts[i].g, al.g)
				continue outer
			}
		}
		out.alts = append(out.alts, al)
	}
	return out
}
