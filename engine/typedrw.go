package main

import (
	"go/ast"
	"go/token"
	"go/types"
	"os"
	"path/filepath"
	"sort"
	"strings"

	"golang.org/x/tools/go/packages"
)

// typedConnRewrite prepares the sources of the package under test FOR NATIVE REPLAY ONLY: every call
// of a method of *grpc.ClientConn becomes a call of the harness summary verifConn<Method>(recv, args...),
// `go x.monitor(...)` becomes verifGo(func() { ... }), context.WithCancel becomes verifWithCancel and
// atomic.CompareAndSwapInt32 becomes verifCAS32 (interference from another goroutine before the operation) -
// the same redirections the symbolic run makes by intrinsics.  The rewrite is driven by go/types, so
// it does not depend on how the call sites are spelled (locals, helpers, nesting).
func typedConnRewrite(pkgDir, modfile, tags string, harnessOverlay map[string][]byte) (map[string]string, string) {
	cfg := &packages.Config{Mode: packages.LoadAllSyntax, Dir: pkgDir, Overlay: harnessOverlay,
		BuildFlags: []string{"-tags=" + tags, "-modfile=" + modfile},
		Env:        append(os.Environ(), "GOFLAGS=-mod=mod", "GOPROXY=off", "GOSUMDB=off", "GOTOOLCHAIN=local")}
	pkgs, err := packages.Load(cfg, ".")
	if err != nil || len(pkgs) == 0 {
		return nil, "typed rewrite: cannot load the package"
	}
	p := pkgs[0]
	out := map[string]string{}
	for i, f := range p.Syntax {
		name := p.CompiledGoFiles[i]
		if strings.HasSuffix(name, "_test.go") || strings.HasPrefix(filepath.Base(name), "zz_verif") {
			continue
		}
		b, err := os.ReadFile(name)
		if err != nil {
			continue
		}
		src := string(b)
		type node struct {
			pos, end int
			render   func(rr func(a, b int) string) string
		}
		var nodes []node
		off := func(ps token.Pos) int { return p.Fset.Position(ps).Offset }
		ast.Inspect(f, func(n ast.Node) bool {
			switch x := n.(type) {
			case *ast.GoStmt:
				if sel, ok := x.Call.Fun.(*ast.SelectorExpr); ok && sel.Sel.Name == "monitor" {
					cp, ce := off(x.Call.Pos()), off(x.Call.End())
					nodes = append(nodes, node{off(x.Pos()), off(x.End()), func(rr func(a, b int) string) string {
						return "verifGo(func() { " + rr(cp, ce) + " })"
					}})
				}
			case *ast.CallExpr:
				sel, ok := x.Fun.(*ast.SelectorExpr)
				if !ok {
					return true
				}
				if id, ok := sel.X.(*ast.Ident); ok && sel.Sel.Name == "CompareAndSwapInt32" {
					if pn, ok := p.TypesInfo.Uses[id].(*types.PkgName); ok && pn.Imported().Path() == "sync/atomic" {
						lp, ce := off(x.Lparen), off(x.End())
						nodes = append(nodes, node{off(x.Pos()), ce, func(rr func(a, b int) string) string {
							return "verifCAS32" + rr(lp, ce)
						}})
						return true
					}
				}
				if id, ok := sel.X.(*ast.Ident); ok && sel.Sel.Name == "WithCancel" {
					if pn, ok := p.TypesInfo.Uses[id].(*types.PkgName); ok && pn.Imported().Path() == "context" {
						lp, ce := off(x.Lparen), off(x.End())
						nodes = append(nodes, node{off(x.Pos()), ce, func(rr func(a, b int) string) string {
							return "verifWithCancel" + rr(lp, ce)
						}})
						return true
					}
				}
				tv, ok := p.TypesInfo.Types[sel.X]
				if !ok {
					return true
				}
				pt, ok := tv.Type.(*types.Pointer)
				if !ok {
					return true
				}
				nt, ok := pt.Elem().(*types.Named)
				if !ok || nt.Obj().Pkg() == nil || nt.Obj().Pkg().Path() != "google.golang.org/grpc" || nt.Obj().Name() != "ClientConn" {
					return true
				}
				rp, re := off(sel.X.Pos()), off(sel.X.End())
				lp, rpar := off(x.Lparen), off(x.Rparen)
				m := sel.Sel.Name
				hasArgs := len(x.Args) > 0
				nodes = append(nodes, node{off(x.Pos()), off(x.End()), func(rr func(a, b int) string) string {
					s := "verifConn" + m + "(" + rr(rp, re)
					if hasArgs {
						s += ", " + rr(lp+1, rpar)
					}
					return s + ")"
				}})
			}
			return true
		})
		if len(nodes) == 0 {
			continue
		}
		sort.Slice(nodes, func(i, j int) bool {
			if nodes[i].pos != nodes[j].pos {
				return nodes[i].pos < nodes[j].pos
			}
			return nodes[i].end > nodes[j].end
		})
		var rr func(a, b int) string
		rr = func(a, b int) string {
			var sb strings.Builder
			cur := a
			for _, n := range nodes {
				if n.pos < cur || n.pos < a || n.end > b {
					continue // outside the range or nested in a node already rendered
				}
				if n.pos == a && n.end == b && cur == a {
					// the range is exactly this node: render it once (its parts recurse with strictly smaller ranges)
				}
				sb.WriteString(src[cur:n.pos])
				n := n
				sb.WriteString(n.render(func(x, y int) string {
					if x == n.pos && y == n.end {
						return src[x:y] // never recurse into the same range
					}
					return rr(x, y)
				}))
				cur = n.end
			}
			sb.WriteString(src[cur:b])
			return sb.String()
		}
		out[name] = rr(0, len(src))
	}
	return out, ""
}
