package main

import (
	"fmt"
	"math/bits"
	"strings"
)

// ---- sorts & terms (hash-consed) ----

type Sort struct {
	Bool bool
	W    int
	FP   bool
}

var FPSort = Sort{FP: true, W: 64}

var BoolSort = Sort{Bool: true}

func BVS(w int) Sort { return Sort{W: w} }

func (s Sort) String() string {
	if s.Bool {
		return "Bool"
	}
	if s.FP {
		return "(_ FloatingPoint 11 53)"
	}
	return fmt.Sprintf("(_ BitVec %d)", s.W)
}

type Term struct {
	id    int
	op    string // "const","var", or smt op
	args  []*Term
	sort  Sort
	val   uint64 // const value (bool: 0/1)
	name  string // var name
	extra [2]int // extract hi/lo, extend amount
	emitted bool
}

var (
	termTab  = map[string]*Term{}
	allTerms []*Term
)

func mk(op string, sort Sort, val uint64, name string, extra [2]int, args ...*Term) *Term {
	var sb strings.Builder
	sb.WriteString(op)
	sb.WriteByte('|')
	sb.WriteString(sort.String())
	fmt.Fprintf(&sb, "|%d|%s|%d,%d", val, name, extra[0], extra[1])
	for _, a := range args {
		fmt.Fprintf(&sb, "|%d", a.id)
	}
	k := sb.String()
	if t, ok := termTab[k]; ok {
		return t
	}
	t := &Term{id: len(allTerms), op: op, args: args, sort: sort, val: val, name: name, extra: extra}
	termTab[k] = t
	allTerms = append(allTerms, t)
	return t
}

func mask(w int) uint64 {
	if w >= 64 {
		return ^uint64(0)
	}
	return (uint64(1) << uint(w)) - 1
}

var (
	True  = mk("const", BoolSort, 1, "", [2]int{})
	False = mk("const", BoolSort, 0, "", [2]int{})
)

func BoolC(b bool) *Term {
	if b {
		return True
	}
	return False
}
func BV(w int, v uint64) *Term { return mk("const", BVS(w), v&mask(w), "", [2]int{}) }
func Var(name string, s Sort) *Term { return mk("var", s, 0, name, [2]int{}) }

func (t *Term) IsConst() bool { return t.op == "const" }
func (t *Term) IsTrue() bool  { return t == True }
func (t *Term) IsFalse() bool { return t == False }

func Not(a *Term) *Term {
	if a.IsConst() {
		return BoolC(a.val == 0)
	}
	if a.op == "not" {
		return a.args[0]
	}
	return mk("not", BoolSort, 0, "", [2]int{}, a)
}
func And(xs ...*Term) *Term {
	var out []*Term
	for _, x := range xs {
		if x.IsFalse() {
			return False
		}
		if x.IsTrue() {
			continue
		}
		dup := false
		for _, o := range out {
			if o == x {
				dup = true
			}
			if o == Not(x) {
				return False
			}
		}
		if !dup {
			out = append(out, x)
		}
	}
	switch len(out) {
	case 0:
		return True
	case 1:
		return out[0]
	}
	return mk("and", BoolSort, 0, "", [2]int{}, out...)
}
func Or(xs ...*Term) *Term {
	var out []*Term
	for _, x := range xs {
		if x.IsTrue() {
			return True
		}
		if x.IsFalse() {
			continue
		}
		dup := false
		for _, o := range out {
			if o == x {
				dup = true
			}
			if o == Not(x) {
				return True
			}
		}
		if !dup {
			out = append(out, x)
		}
	}
	switch len(out) {
	case 0:
		return False
	case 1:
		return out[0]
	case 2:
		// (g & c) | (g & !c)  ==>  g     (guards of the two arms of a branch joining again)
		if r := factorOr(out[0], out[1]); r != nil {
			return r
		}
	}
	return mk("or", BoolSort, 0, "", [2]int{}, out...)
}
func Implies(a, b *Term) *Term { return Or(Not(a), b) }
func Ite(c, a, b *Term) *Term {
	if c.IsTrue() {
		return a
	}
	if c.IsFalse() {
		return b
	}
	if a == b {
		return a
	}
	if a.sort.Bool {
		if a.IsTrue() && b.IsFalse() {
			return c
		}
		if a.IsFalse() && b.IsTrue() {
			return Not(c)
		}
		if a.IsTrue() {
			return Or(c, b)
		}
		if a.IsFalse() {
			return And(Not(c), b)
		}
		if b.IsTrue() {
			return Or(Not(c), a)
		}
		if b.IsFalse() {
			return And(c, a)
		}
	}
	return mk("ite", a.sort, 0, "", [2]int{}, c, a, b)
}
func Eq(a, b *Term) *Term {
	if a == b {
		return True
	}
	if a.IsConst() && b.IsConst() {
		return BoolC(a.val == b.val)
	}
	if a.sort.Bool {
		if a.IsTrue() {
			return b
		}
		if b.IsTrue() {
			return a
		}
		if a.IsFalse() {
			return Not(b)
		}
		if b.IsFalse() {
			return Not(a)
		}
	}
	if a.id > b.id {
		a, b = b, a
	}
	// eq(ite(c,k1,k2),k) simplifications for constants
	if b.op == "ite" && a.IsConst() && b.args[1].IsConst() && b.args[2].IsConst() {
		return Ite(b.args[0], Eq(a, b.args[1]), Eq(a, b.args[2]))
	}
	if a.op == "ite" && b.IsConst() && a.args[1].IsConst() && a.args[2].IsConst() {
		return Ite(a.args[0], Eq(b, a.args[1]), Eq(b, a.args[2]))
	}
	return mk("=", BoolSort, 0, "", [2]int{}, a, b)
}

func sext(v uint64, w int) int64 {
	if w >= 64 {
		return int64(v)
	}
	sh := uint(64 - w)
	return int64(v<<sh) >> sh
}

// BvBin builds a binary bitvector op with constant folding.
func BvBin(op string, a, b *Term) *Term {
	w := a.sort.W
	if a.IsConst() && b.IsConst() {
		x, y := a.val, b.val
		switch op {
		case "bvadd":
			return BV(w, x+y)
		case "bvsub":
			return BV(w, x-y)
		case "bvmul":
			return BV(w, x*y)
		case "bvand":
			return BV(w, x&y)
		case "bvor":
			return BV(w, x|y)
		case "bvxor":
			return BV(w, x^y)
		case "bvshl":
			if y >= uint64(w) {
				return BV(w, 0)
			}
			return BV(w, x<<y)
		case "bvlshr":
			if y >= uint64(w) {
				return BV(w, 0)
			}
			return BV(w, x>>y)
		case "bvurem":
			if y != 0 {
				return BV(w, x%y)
			}
		case "bvudiv":
			if y != 0 {
				return BV(w, x/y)
			}
		}
	}
	if op == "bvadd" || op == "bvsub" || op == "bvor" || op == "bvxor" || op == "bvshl" || op == "bvlshr" {
		if b.IsConst() && b.val == 0 {
			return a
		}
	}
	if op == "bvadd" && a.IsConst() && a.val == 0 {
		return b
	}
	_ = bits.Len
	return mk(op, a.sort, 0, "", [2]int{}, a, b)
}
func BvCmp(op string, a, b *Term) *Term {
	w := a.sort.W
	if a.IsConst() && b.IsConst() {
		x, y := a.val, b.val
		sx, sy := sext(x, w), sext(y, w)
		switch op {
		case "bvult":
			return BoolC(x < y)
		case "bvule":
			return BoolC(x <= y)
		case "bvugt":
			return BoolC(x > y)
		case "bvuge":
			return BoolC(x >= y)
		case "bvslt":
			return BoolC(sx < sy)
		case "bvsle":
			return BoolC(sx <= sy)
		case "bvsgt":
			return BoolC(sx > sy)
		case "bvsge":
			return BoolC(sx >= sy)
		}
	}
	return mk(op, BoolSort, 0, "", [2]int{}, a, b)
}
func BvNeg(a *Term) *Term {
	if a.IsConst() {
		return BV(a.sort.W, -a.val)
	}
	return mk("bvneg", a.sort, 0, "", [2]int{}, a)
}
func BvNot(a *Term) *Term {
	if a.IsConst() {
		return BV(a.sort.W, ^a.val)
	}
	return mk("bvnot", a.sort, 0, "", [2]int{}, a)
}
func Extract(a *Term, hi, lo int) *Term {
	if hi == a.sort.W-1 && lo == 0 {
		return a
	}
	if a.IsConst() {
		return BV(hi-lo+1, a.val>>uint(lo))
	}
	return mk("extract", BVS(hi-lo+1), 0, "", [2]int{hi, lo}, a)
}
func ZeroExt(a *Term, to int) *Term {
	if to == a.sort.W {
		return a
	}
	if a.IsConst() {
		return BV(to, a.val)
	}
	return mk("zero_extend", BVS(to), 0, "", [2]int{to - a.sort.W, 0}, a)
}
func SignExt(a *Term, to int) *Term {
	if to == a.sort.W {
		return a
	}
	if a.IsConst() {
		return BV(to, uint64(sext(a.val, a.sort.W)))
	}
	return mk("sign_extend", BVS(to), 0, "", [2]int{to - a.sort.W, 0}, a)
}

// smt text of a term referencing children by name.
func (t *Term) ref() string {
	switch t.op {
	case "const":
		if t.sort.Bool {
			if t.val == 1 {
				return "true"
			}
			return "false"
		}
		return fmt.Sprintf("(_ bv%d %d)", t.val, t.sort.W)
	case "var":
		return "|" + t.name + "|"
	}
	return fmt.Sprintf("t%d", t.id)
}
// UF builds an application of an uninterpreted function (declared on first use by the solver layer).
func UF(name string, res Sort, args ...*Term) *Term {
	return mk("uf", res, 0, name, [2]int{}, args...)
}

func (t *Term) body() string {
	var sb strings.Builder
	switch t.op {
	case "uf":
		sb.WriteString("(|" + t.name + "|")
		for _, a := range t.args {
			sb.WriteByte(' ')
			sb.WriteString(a.ref())
		}
		sb.WriteByte(')')
	case "extract":
		fmt.Fprintf(&sb, "((_ extract %d %d) %s)", t.extra[0], t.extra[1], t.args[0].ref())
	case "zero_extend", "sign_extend":
		fmt.Fprintf(&sb, "((_ %s %d) %s)", t.op, t.extra[0], t.args[0].ref())
	default:
		sb.WriteByte('(')
		sb.WriteString(t.op)
		for _, a := range t.args {
			sb.WriteByte(' ')
			sb.WriteString(a.ref())
		}
		sb.WriteByte(')')
	}
	return sb.String()
}

// ---- floating point (float64 only) ----
func FPFromBits(bits *Term) *Term { return mk("(_ to_fp 11 53)", FPSort, 0, "", [2]int{}, bits) }
func FPFromSBV(x *Term) *Term    { return mk("(_ to_fp 11 53) RNE", FPSort, 0, "", [2]int{}, x) }
func FPToSBV(x *Term) *Term      { return mk("(_ fp.to_sbv 64) RTZ", BVS(64), 0, "", [2]int{}, x) }
func FPBin(op string, a, b *Term) *Term {
	return mk("fp."+op+" RNE", FPSort, 0, "", [2]int{}, a, b)
}
func FPCmp(op string, a, b *Term) *Term { return mk("fp."+op, BoolSort, 0, "", [2]int{}, a, b) }

func conjuncts(t *Term) []*Term {
	if t.op == "and" {
		return t.args
	}
	return []*Term{t}
}

func factorOr(a, b *Term) *Term {
	ca, cb := conjuncts(a), conjuncts(b)
	if len(ca) > 24 || len(cb) > 24 {
		return nil
	}
	inB := map[*Term]bool{}
	for _, x := range cb {
		inB[x] = true
	}
	var common, ra, rb []*Term
	inCommon := map[*Term]bool{}
	for _, x := range ca {
		if inB[x] {
			common = append(common, x)
			inCommon[x] = true
		} else {
			ra = append(ra, x)
		}
	}
	for _, x := range cb {
		if !inCommon[x] {
			rb = append(rb, x)
		}
	}
	if len(ra) == 1 && len(rb) == 1 && ra[0] == Not(rb[0]) {
		return And(common...)
	}
	if len(ra) == 0 || len(rb) == 0 {
		// one side implies the other: a | (a & x) == a
		return And(common...)
	}
	return nil
}
