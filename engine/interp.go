package main

import (
	"fmt"
	"os"
	"math"
	"go/constant"
	"go/token"
	"go/types"
	"sort"
	"strings"

	"golang.org/x/tools/go/ssa"
)

// ---------- versioned state ----------

type VS struct {
	v   Value
	ver int
}

var verCounter int

func nv(v Value) VS { verCounter++; return VS{v, verCounter} }

type MState struct {
	heap  map[int]VS
	locks map[string]*Term // exclusive lock held (Bool)
	rlock map[string]*Term // shared lock count (BV8)
}

func newState() *MState {
	return &MState{heap: map[int]VS{}, locks: map[string]*Term{}, rlock: map[string]*Term{}}
}
func (s *MState) clone() *MState {
	c := &MState{heap: make(map[int]VS, len(s.heap)), locks: make(map[string]*Term, len(s.locks)), rlock: make(map[string]*Term, len(s.rlock))}
	for k, v := range s.heap {
		c.heap[k] = v
	}
	for k, v := range s.locks {
		c.locks[k] = v
	}
	for k, v := range s.rlock {
		c.rlock[k] = v
	}
	return c
}

type Env map[ssa.Value]VS

func (e Env) clone() Env {
	c := make(Env, len(e))
	for k, v := range e {
		c[k] = v
	}
	return c
}

type deferred struct {
	fn   Value
	args []Value
}

type incoming struct {
	g      *Term
	st     *MState
	env    Env
	pred   *ssa.BasicBlock
	defers []deferred
}

type exit struct {
	g   *Term
	st  *MState
	res Value
}

type Finding struct {
	Kind  string            `json:"kind"`
	Label string            `json:"label"`
	Known string            `json:"known,omitempty"` // id of the listed known finding this is an instance of
	Model map[string]string `json:"model,omitempty"`
	Where string            `json:"where,omitempty"`
}

// KnownSpec is one entry of /verif/known_findings.json relevant to matching.
type KnownSpec struct {
	ID       string   `json:"id"`
	Property []string `json:"property"`
	Kind     string   `json:"kind"`
	Match    string   `json:"match"` // substring of the finding label
	Entries  []string `json:"entries,omitempty"`
	What     string   `json:"what"`
}

type Interp struct {
	prog     *ssa.Program
	solver   *Solver
	nextObj  int
	globals  map[*ssa.Global]int
	ginit    map[int]func() Value
	nvars    int
	vars     []*Term
	findings []Finding
	reach    map[string]string
	instrs   int
	blocks   int
	merges   int
	funcs    map[string]int
	stubs    map[string]int
	opaqueT  map[string]types.Type
	ranks    map[*ssa.Function]map[*ssa.BasicBlock]int
	loopsOf  map[*ssa.Function]map[*ssa.BasicBlock]map[*ssa.BasicBlock]bool
	maxUnroll int
	events   []string
	obligations int
	inHook   bool
	floatToInt []*Term
	curInstr string
	harnessPkg *ssa.Package
	crcCalls []crcCall // checksum computations seen so far (C19)
	casDelta map[string]*Term // ghost: interference applied at compare-and-swap operations, per cell
	casOps   int              // compare-and-swap operations executed so far (interference budget)
	realKeys bool
	recTag   string
	firstRecObj int
	accesses []Access
	snap     *MState
	lockHist map[string]int
	lockHookMin int
	entry     string
	knownSpecs []KnownSpec
	knownCond map[string]*Term
	discharged int
	samples   []string
	observes  []Observe
	hdrStates map[*ssa.BasicBlock]*hdrSnap
	unwindSeen map[string]bool
	intrinsicsOff map[string]bool
	flags    map[string]bool
	freshCnt map[string]int
	batch    []pendingOb
	tail     []pendingOb
	batchDepth int
	curHarness bool
	nAssertSamples int
	selClosed map[ssa.Instruction]map[int]*Term
	prop     string
	skipped  int
	regexLits []string
	hashWrites map[int][]SliceV
	hashSums  map[int]int
	condObjs map[string]int
	guarded  []guardedCell
	fairSelect bool
	assumedSet map[*Term]bool
	trivial  int
}

type guardedCell struct {
	obj      int
	path, mu string
	name     string
}

type Observe struct {
	Name string
	T    *Term
	G    *Term
}

func NewInterp(prog *ssa.Program) *Interp {
	return &Interp{prog: prog, solver: NewSolver(), globals: map[*ssa.Global]int{}, reach: map[string]string{},
		funcs: map[string]int{}, stubs: map[string]int{}, opaqueT: map[string]types.Type{}, nextObj: 1,
		ranks: map[*ssa.Function]map[*ssa.BasicBlock]int{}, loopsOf: map[*ssa.Function]map[*ssa.BasicBlock]map[*ssa.BasicBlock]bool{}, maxUnroll: 8}
}

func (in *Interp) fresh(name string, s Sort) *Term {
	in.nvars++
	v := Var(fmt.Sprintf("%s#%d", name, in.nvars), s)
	in.vars = append(in.vars, v)
	return v
}
func (in *Interp) named(name string, s Sort) *Term {
	if strings.HasSuffix(name, "@") {
		if in.freshCnt == nil {
			in.freshCnt = map[string]int{}
		}
		in.freshCnt[name]++
		v := Var(fmt.Sprintf("%s#%d", name, in.freshCnt[name]), s)
		in.vars = append(in.vars, v)
		return v
	}
	v := Var(name, s)
	for _, x := range in.vars {
		if x == v {
			return v
		}
	}
	in.vars = append(in.vars, v)
	return v
}

// crcCall: one checksum computation (crc32.Checksum, or the first Write into a hash object after
// Reset).  The checksum is an uninterpreted value per computation (unrelated values for different
// computations; the harness refers to the latest computation over a given slice).
type crcCall struct {
	data SliceV
	poly *Term
	val  *Term
}

func (in *Interp) crcRecord(data SliceV, poly *Term) *Term {
	name := "crc"
	if len(in.crcCalls) > 0 {
		name = fmt.Sprintf("crc_%d", len(in.crcCalls))
	}
	v := in.named(name, BVS(32))
	in.crcCalls = append(in.crcCalls, crcCall{data, poly, v})
	return v
}

// crcLookup: the latest checksum computation over a slice that starts where b starts.
func (in *Interp) crcLookup(b SliceV) *crcCall {
	if len(b.arr.alts) != 1 {
		return nil
	}
	for i := len(in.crcCalls) - 1; i >= 0; i-- {
		c := &in.crcCalls[i]
		if len(c.data.arr.alts) == 1 && c.data.arr.alts[0].obj == b.arr.alts[0].obj && c.data.off == b.off {
			return c
		}
	}
	return nil
}

func (in *Interp) opaqueType(tag string) types.Type {
	if t, ok := in.opaqueT[tag]; ok {
		return t
	}
	t := types.NewNamed(types.NewTypeName(token.NoPos, nil, "opaque$"+tag, nil), types.NewStruct(nil, nil), nil)
	in.opaqueT[tag] = t
	return t
}

// ---------- solver interface: permanent assumptions + guarded queries ----------

func (in *Interp) assume(c *Term) {
	if c.IsTrue() {
		return
	}
	if in.assumedSet == nil {
		in.assumedSet = map[*Term]bool{}
	}
	if in.assumedSet[c] {
		return
	}
	in.assumedSet[c] = true
	in.solver.Assert(c)
}

func (in *Interp) satK(kind string, cs ...*Term) bool {
	QueryKind = kind
	defer func() { QueryKind = "" }()
	return in.sat(cs...)
}

func (in *Interp) sat(cs ...*Term) bool {
	c := And(cs...)
	if c.IsFalse() {
		return false
	}
	r := in.solver.Check([]*Term{c})
	if r == "unknown" {
		panic(unsupported("solver unknown"))
	}
	return r == "sat"
}

func (in *Interp) finding(kind, label string) {
	in.findings = append(in.findings, Finding{Kind: kind, Label: label, Model: in.solver.Model(in.vars), Where: in.curInstr})
}

// sample keeps a few obligations for the evidence file: assertions of the property first.
func (in *Interp) sample(kind, label string) {
	s := kind + ": " + label
	for _, x := range in.samples {
		if x == s {
			return
		}
	}
	if kind == "assert" {
		if in.nAssertSamples < 8 {
			in.nAssertSamples++
			in.samples = append([]string{s}, in.samples...)
		}
		return
	}
	if len(in.samples)-in.nAssertSamples < 4 {
		in.samples = append(in.samples, s)
	}
}

// knownFor returns the listed known findings that may explain a failure of (kind,label) in this entry.
func (in *Interp) knownFor(kind, label string) []KnownSpec {
	var out []KnownSpec
	for _, k := range in.knownSpecs {
		if k.Kind != kind || !strings.Contains(label, k.Match) {
			continue
		}
		if len(k.Entries) > 0 {
			ok := false
			for _, e := range k.Entries {
				if e == in.entry {
					ok = true
				}
			}
			if !ok {
				continue
			}
		}
		out = append(out, k)
	}
	return out
}

// obligation: under guard g the condition bad must be unsatisfiable.  Failures explained by a
// listed known finding (its verifKnown predicate holds) are reported as such; any other model is
// a new finding.  Afterwards g => !bad is assumed so that one defect does not cascade.
func (in *Interp) obligation(g *Term, kind, label string, bad *Term) {
	if bad.IsFalse() || g.IsFalse() {
		return
	}
	// A run on behalf of one property skips the assertions labelled for other properties only:
	// a failing foreign assertion would otherwise cut off (assume away) the very paths on which
	// this property's own obligation fails.
	if kind == "assert" && in.prop != "" && !labelFor(label, in.prop) {
		in.skipped++
		return
	}
	// Batching: obligations raised inside a verifBatch(true)..verifBatch(false) bracket, and bounds /
	// nil checks of the harness' own code, are decided by one query on their disjunction; only if
	// that is satisfiable are they examined one by one.
	if in.batchDepth > 0 {
		in.batch = append(in.batch, pendingOb{g, kind, label, bad, in.curInstr})
		return
	}
	if kind == "panic" && in.curHarness {
		in.tail = append(in.tail, pendingOb{g, kind, label, bad, in.curInstr})
		return
	}
	in.obligation1(g, kind, label, bad)
}

type pendingOb struct {
	g           *Term
	kind, label string
	bad         *Term
	where       string
}

func (in *Interp) flush(list []pendingOb) {
	const chunk = 12
	for len(list) > chunk {
		in.flush1(list[:chunk])
		list = list[chunk:]
	}
	in.flush1(list)
}

func (in *Interp) flush1(list []pendingOb) {
	// obligations whose condition is literally a fact already assumed need no query
	var rest []pendingOb
	for _, p := range list {
		if in.assumedSet[Implies(p.g, Not(p.bad))] {
			in.obligations++
			in.discharged++
			in.trivial++
			continue
		}
		rest = append(rest, p)
	}
	list = rest
	if len(list) == 0 {
		return
	}
	var ds []*Term
	for _, p := range list {
		ds = append(ds, And(p.g, p.bad))
	}
	if !in.satK("batch", Or(ds...)) {
		in.obligations += len(list)
		in.discharged += len(list)
		for _, p := range list {
			in.sample(p.kind, p.label)
			in.assume(Implies(p.g, Not(p.bad)))
		}
		return
	}
	for _, p := range list {
		in.curInstr = p.where
		in.obligation1(p.g, p.kind, p.label, p.bad)
	}
}

func (in *Interp) obligation1(g *Term, kind, label string, bad *Term) {
	if in.assumedSet[Implies(g, Not(bad))] {
		in.obligations++
		in.discharged++
		in.trivial++
		return
	}
	in.obligations++
	in.sample(kind, label)
	if !in.satK("oblig-"+kind, g, bad) {
		in.discharged++
		in.assume(Implies(g, Not(bad)))
		return
	}
	cands := in.knownFor(kind, label)
	K := False
	for _, k := range cands {
		if c, ok := in.knownCond[k.ID]; ok {
			K = Or(K, c)
		}
	}
	failed := true
	if K.IsFalse() {
		in.finding(kind, label)
	} else {
		if in.sat(g, bad, Not(K)) {
			in.finding(kind, label)
		}
		for _, k := range cands {
			c, ok := in.knownCond[k.ID]
			if !ok {
				continue
			}
			if in.sat(g, bad, c) {
				in.findings = append(in.findings, Finding{Kind: kind, Label: label, Known: k.ID, Model: in.solver.Model(in.vars), Where: in.curInstr})
			}
		}
	}
	if !failed {
		in.discharged++
	}
	in.assume(Implies(g, Not(bad)))
}

// ---------- merging ----------

func mergeVS(items []VS, guards []*Term) VS {
	same := true
	for _, it := range items[1:] {
		if it.ver != items[0].ver {
			same = false
		}
	}
	if same {
		return items[0]
	}
	acc := items[len(items)-1].v
	for i := len(items) - 2; i >= 0; i-- {
		acc = iteVal(guards[i], items[i].v, acc)
	}
	return nv(acc)
}

func (in *Interp) mergeStates(gs []*Term, sts []*MState) *MState {
	if len(sts) == 1 {
		return sts[0]
	}
	in.merges++
	out := newState()
	keys := map[int]bool{}
	for _, s := range sts {
		for k := range s.heap {
			keys[k] = true
		}
	}
	for k := range keys {
		var items []VS
		var guards []*Term
		for i, s := range sts {
			if v, ok := s.heap[k]; ok {
				items = append(items, v)
				guards = append(guards, gs[i])
			}
		}
		out.heap[k] = mergeVS(items, guards)
	}
	lk := map[string]bool{}
	for _, s := range sts {
		for k := range s.locks {
			lk[k] = true
		}
		for k := range s.rlock {
			lk[k] = true
		}
	}
	for k := range lk {
		var acc, racc *Term
		for i := len(sts) - 1; i >= 0; i-- {
			v, ok := sts[i].locks[k]
			if !ok {
				v = False
			}
			rv, ok := sts[i].rlock[k]
			if !ok {
				rv = BV(8, 0)
			}
			if acc == nil {
				acc, racc = v, rv
			} else {
				acc, racc = Ite(gs[i], v, acc), Ite(gs[i], rv, racc)
			}
		}
		out.locks[k], out.rlock[k] = acc, racc
	}
	return out
}

func mergeEnvs(gs []*Term, envs []Env) Env {
	if len(envs) == 1 {
		return envs[0]
	}
	out := Env{}
	for i, e := range envs {
		for k, v := range e {
			if _, done := out[k]; done {
				continue
			}
			items := []VS{v}
			guards := []*Term{gs[i]}
			for j := i + 1; j < len(envs); j++ {
				if w, ok := envs[j][k]; ok {
					items = append(items, w)
					guards = append(guards, gs[j])
				}
			}
			func() {
				defer func() {
					if r := recover(); r != nil {
						if _, ok := r.(unsupportedErr); ok {
							out[k] = v // value not mergeable: keep one; SSA dominance makes cross-branch uses go through phis
							return
						}
						panic(r)
					}
				}()
				out[k] = mergeVS(items, guards)
			}()
		}
	}
	return out
}

func (in *Interp) isHarnessFn(fn *ssa.Function) bool {
	if fn.Pkg == nil {
		// an instantiation of a generic function belongs to no package: decided by its origin
		if o := fn.Origin(); o != nil && o.Pkg != nil {
			fn = o
		} else {
			return false
		}
	}
	p := in.prog.Fset.Position(fn.Pos())
	return strings.Contains(p.Filename, "zz_verif")
}

// stateEq builds the term "every heap object has the same value in both states" for objects
// present in both (objects allocated in between are unreachable garbage from the loop's view
// if everything older is unchanged).  ok=false when some object kind cannot be compared.
type hdrSnap struct {
	st   *MState
	phis map[*ssa.Phi]Value
}

func (in *Interp) stateEq(prev *hdrSnap, y *MState, phis map[*ssa.Phi]Value) (eq *Term, ok bool) {
	x := prev.st
	defer func() {
		if r := recover(); r != nil {
			eq, ok = nil, false
		}
	}()
	eq = True
	for k, vx := range x.heap {
		vy, has := y.heap[k]
		if !has {
			continue
		}
		if vx.ver == vy.ver {
			continue
		}
		eq = And(eq, deepEq(vx.v, vy.v))
	}
	for phi, v := range phis {
		if pv, has := prev.phis[phi]; has {
			eq = And(eq, deepEq(pv, v))
		}
	}
	return eq, true
}

func deepEq(a, b Value) *Term {
	switch x := a.(type) {
	case MapData:
		y := b.(MapData)
		c := True
		n := len(x.entries)
		if len(y.entries) < n {
			n = len(y.entries)
		}
		for i := 0; i < n; i++ {
			if !valEq(x.entries[i].key, y.entries[i].key).IsTrue() {
				panic("map slots differ")
			}
			c = And(c, Eq(x.entries[i].present, y.entries[i].present), Implies(x.entries[i].present, deepEq(x.entries[i].val, y.entries[i].val)))
		}
		for _, e := range x.entries[n:] {
			c = And(c, Not(e.present))
		}
		for _, e := range y.entries[n:] {
			c = And(c, Not(e.present))
		}
		return c
	case StructV:
		y := b.(StructV)
		c := True
		for i := range x.f {
			c = And(c, deepEq(x.f[i], y.f[i]))
		}
		return c
	case ArrayV:
		y := b.(ArrayV)
		c := True
		for i := range x.e {
			c = And(c, deepEq(x.e[i], y.e[i]))
		}
		return c
	case SliceV:
		y := b.(SliceV)
		if x.off != y.off {
			return False
		}
		return And(Eq(x.len, y.len), Or(And(x.arr.nilG, y.arr.nilG), ptrEq(x.arr, y.arr)))
	case IterData:
		return Eq(x.pos, b.(IterData).pos)
	case ChanData:
		return Eq(x.closed, b.(ChanData).closed)
	case FuncV:
		return True
	case nil:
		return True
	}
	return valEq(a, b)
}

// ---------- block order (loop-aware reverse postorder) ----------

func (in *Interp) rank(fn *ssa.Function) map[*ssa.BasicBlock]int {
	if r, ok := in.ranks[fn]; ok {
		return r
	}
	// natural loops
	loops := map[*ssa.BasicBlock]map[*ssa.BasicBlock]bool{} // header -> body
	for _, u := range fn.Blocks {
		for _, h := range u.Succs {
			if h.Dominates(u) {
				body := loops[h]
				if body == nil {
					body = map[*ssa.BasicBlock]bool{h: true}
					loops[h] = body
				}
				stack := []*ssa.BasicBlock{u}
				for len(stack) > 0 {
					x := stack[len(stack)-1]
					stack = stack[:len(stack)-1]
					if body[x] {
						continue
					}
					body[x] = true
					stack = append(stack, x.Preds...)
				}
			}
		}
	}
	depthIn := func(x, s *ssa.BasicBlock) int { // number of loops containing x that also contain s
		n := 0
		for _, body := range loops {
			if body[x] && body[s] {
				n++
			}
		}
		return n
	}
	visited := map[*ssa.BasicBlock]bool{}
	var post []*ssa.BasicBlock
	var dfs func(b *ssa.BasicBlock)
	dfs = func(b *ssa.BasicBlock) {
		visited[b] = true
		succs := append([]*ssa.BasicBlock(nil), b.Succs...)
		sort.SliceStable(succs, func(i, j int) bool { return depthIn(b, succs[i]) < depthIn(b, succs[j]) })
		for _, s := range succs {
			if !visited[s] {
				dfs(s)
			}
		}
		post = append(post, b)
	}
	dfs(fn.Blocks[0])
	r := map[*ssa.BasicBlock]int{}
	for i, b := range post {
		r[b] = len(post) - 1 - i
	}
	in.ranks[fn] = r
	in.loopsOf[fn] = loops
	return r
}

// ---------- access recording (lockset race candidates) ----------

type Access struct {
	tag    string
	obj    int
	path   string
	write  bool
	atomic bool
	g      *Term
	excl   map[string]*Term // mutex -> held exclusively
	shared map[string]*Term // mutex -> held (shared or exclusive)
	site   string
	desc   string
}

func (a *Act) record(p PtrV, write, atomic bool) {
	in := a.in
	if in.recTag == "" || in.inHook || in.isHarnessFn(a.fn) {
		return
	}
	excl, shared := map[string]*Term{}, map[string]*Term{}
	for k := range a.st.locks {
		w, r := a.lockState(k)
		excl[k] = w
		shared[k] = Or(w, Not(Eq(r, BV(8, 0))))
	}
	for _, al := range p.alts {
		in.accesses = append(in.accesses, Access{tag: in.recTag, obj: al.obj, path: fmt.Sprint(al.path), write: write, atomic: atomic,
			g: And(a.g, al.g), excl: excl, shared: shared, site: a.fn.String(), desc: a.curDesc})
	}
}

func (a *Act) recordMap(obj int, write bool) {
	if obj != 0 {
		a.record(ptrTo(obj), write, false)
	}
}

// ---------- activation ----------

type Act struct {
	in     *Interp
	fn     *ssa.Function
	env    Env
	st     *MState
	g      *Term
	defers []deferred
	bind   []Value
	block  *ssa.BasicBlock
	depth  int
	atomicOp bool
	curDesc string
}

// descOf names the memory cell an address operand denotes (type.field), for race reports.
func descOf(v ssa.Value) string {
	switch x := v.(type) {
	case *ssa.FieldAddr:
		t := x.X.Type().Underlying().(*types.Pointer).Elem()
		st := t.Underlying().(*types.Struct)
		name := t.String()
		if i := strings.LastIndex(name, "."); i >= 0 {
			name = name[i+1:]
		}
		return name + "." + st.Field(x.Field).Name()
	case *ssa.IndexAddr:
		return descOf(x.X) + "[i]"
	case *ssa.UnOp:
		return descOf(x.X)
	case *ssa.Global:
		return "global " + x.Name()
	case *ssa.Alloc:
		return "local " + x.Comment
	case *ssa.FreeVar:
		return "captured " + x.Name()
	}
	return v.Type().String()
}

type deadEnd struct{}

func (a *Act) kill() { a.g = False; panic(deadEnd{}) }

func (a *Act) mayPanic(c *Term, site string) {
	if c.IsFalse() {
		return
	}
	a.in.curHarness = a.in.isHarnessFn(a.fn)
	a.in.obligation(a.g, "panic", site+" in "+a.fn.String(), c)
	a.in.curHarness = false
	if c.IsTrue() {
		a.kill()
	}
}

func (a *Act) alloc(v Value) int {
	id := a.in.nextObj
	a.in.nextObj++
	a.st.heap[id] = nv(v)
	return id
}

func (a *Act) load(p PtrV) Value {
	a.mayPanic(p.nilG, "nil dereference (load)")
	a.record(p, false, a.atomicOp)
	var res Value
	for i := len(p.alts) - 1; i >= 0; i-- {
		al := p.alts[i]
		v := navigate(a.st.heap[al.obj].v, al.path)
		if res == nil {
			res = v
		} else {
			res = iteVal(al.g, v, res)
		}
	}
	if res == nil {
		a.kill()
	}
	return res
}

func (a *Act) store(p PtrV, v Value) {
	a.mayPanic(p.nilG, "nil dereference (store)")
	a.record(p, true, a.atomicOp)
	if len(a.in.guarded) > 0 && !a.in.isHarnessFn(a.fn) && !a.atomicOp {
		for _, al := range p.alts {
			for _, gc := range a.in.guarded {
				if gc.obj == al.obj && gc.path == fmt.Sprint(al.path) {
					w, _ := a.lockState(gc.mu)
					a.in.obligation(And(a.g, al.g), "lockset", "write to "+gc.name+" without holding its mutex in "+a.fn.String(), Not(w))
				}
			}
		}
	}
	for _, al := range p.alts {
		root := a.st.heap[al.obj].v
		old := navigate(root, al.path)
		a.st.heap[al.obj] = nv(update(root, al.path, iteVal(al.g, v, old)))
	}
}

func (a *Act) global(g *ssa.Global) PtrV {
	in := a.in
	id, ok := in.globals[g]
	if !ok {
		id = in.nextObj
		in.nextObj++
		in.globals[g] = id
	}
	if _, ok := a.st.heap[id]; !ok {
		et := g.Type().(*types.Pointer).Elem()
		var v Value
		if types.Identical(et, types.Universe.Lookup("error").Type()) {
			tag := g.Pkg.Pkg.Path() + "." + g.Name()
			v = IfaceV{alts: []IfaceAlt{{g: True, typ: in.opaqueType(tag), val: OpaqueV{tag: tag}}}, nilG: False}
		} else {
			v = in.zeroVal(et)
		}
		a.st.heap[id] = VS{v, -id} // stable version: identical in every state that lazily creates it
	}
	return ptrTo(id)
}

func (a *Act) get(v ssa.Value) Value {
	switch x := v.(type) {
	case *ssa.Const:
		return a.in.constVal(x)
	case *ssa.Global:
		return a.global(x)
	case *ssa.Function:
		return FuncV{fn: x}
	case *ssa.Builtin:
		return FuncV{name: "builtin:" + x.Name()}
	case *ssa.FreeVar:
		for i, fv := range a.fn.FreeVars {
			if fv == x {
				return a.bind[i]
			}
		}
	}
	r, ok := a.env[v]
	if !ok {
		panic(fmt.Sprintf("no value for %s (%T) in %s", v.Name(), v, a.fn))
	}
	return r.v
}
func (a *Act) set(k ssa.Value, v Value) { a.env[k] = nv(v) }

func (in *Interp) constVal(c *ssa.Const) Value {
	t := c.Type()
	if c.Value == nil {
		return in.zeroVal(t)
	}
	if b, ok := t.Underlying().(*types.Basic); ok {
		switch {
		case b.Info()&types.IsBoolean != 0:
			return BoolC(constant.BoolVal(c.Value))
		case b.Info()&types.IsInteger != 0:
			w, _ := intWidth(t)
			if u, ok := constant.Uint64Val(constant.ToInt(c.Value)); ok {
				return BV(w, u)
			}
			i, _ := constant.Int64Val(constant.ToInt(c.Value))
			return BV(w, uint64(i))
		case b.Info()&types.IsString != 0:
			return ConcStr(constant.StringVal(c.Value))
		case b.Info()&types.IsFloat != 0:
			f, _ := constant.Float64Val(c.Value)
			return FPFromBits(BV(64, math.Float64bits(f)))
		}
	}
	panic(unsupported("const " + c.String()))
}

// callFn executes fn under guard g from state st (which it may mutate/consume) and returns the merged exit.
func (in *Interp) callFn(fv FuncV, args []Value, g *Term, st *MState, depth int) (*Term, *MState, Value) {
	fn := fv.fn
	in.funcs[fn.String()]++
	if depth > 40 {
		panic(unsupported("call depth"))
	}
	rank := in.rank(fn)
	env0 := Env{}
	for i, p := range fn.Params {
		env0[p] = nv(args[i])
	}
	pend := map[*ssa.BasicBlock][]incoming{fn.Blocks[0]: {{g: g, st: st, env: env0}}}
	visits := map[*ssa.BasicBlock]int{}
	hdr := map[*ssa.BasicBlock]*hdrSnap{}
	lastHdrG := map[*ssa.BasicBlock]*Term{}
	var rets []exit
	for len(pend) > 0 {
		var b *ssa.BasicBlock
		for x := range pend {
			if body, isHeader := in.loopsOf[fn][x]; isHeader {
				busy := false
				for y := range pend {
					if y != x && body[y] {
						busy = true
					}
				}
				if busy {
					continue // finish the iteration's body before re-entering the header
				}
			}
			if b == nil || rank[x] < rank[b] {
				b = x
			}
		}
		ins := pend[b]
		delete(pend, b)
		// merge incoming edges
		var gs []*Term
		var sts []*MState
		var envs []Env
		for _, i := range ins {
			gs = append(gs, i.g)
			sts = append(sts, i.st)
			envs = append(envs, i.env)
		}
		bg := Or(gs...)
		if bg.IsFalse() {
			continue
		}
		if _, isHeader := in.loopsOf[fn][b]; isHeader && visits[b] >= 1 && !bg.IsTrue() && bg != lastHdrG[b] && !in.satK("loop", bg) {
			continue
		}
		lastHdrG[b] = bg
		visits[b]++
		if body, isHeader := in.loopsOf[fn][b]; isHeader {
			for y := range body {
				if y != b {
					visits[y] = 0
				}
			}
		}
		bound := in.maxUnroll
		if in.isHarnessFn(fn) {
			bound = 64
			if in.maxUnroll > bound {
				bound = in.maxUnroll // jobs with a large unrolling (large concrete payloads) loop as long in the harness
			}
		}
		overflow := visits[b] > bound
		act := &Act{in: in, fn: fn, env: mergeEnvs(gs, envs), st: in.mergeStates(gs, sts), g: bg, bind: fv.bind, block: b, depth: depth, defers: ins[0].defers}
		if len(ins) > 1 {
			act.env = act.env.clone()
			act.st = act.st.clone()
		}
		// phis (parallel assignment)
		phiVals := map[*ssa.Phi]Value{}
		for _, instr := range b.Instrs {
			phi, ok := instr.(*ssa.Phi)
			if !ok {
				break
			}
			var acc Value
			for k := len(ins) - 1; k >= 0; k-- {
				var ev Value
				for ei, p := range b.Preds {
					if p == ins[k].pred {
						a2 := &Act{in: in, fn: fn, env: ins[k].env, st: ins[k].st, g: ins[k].g, bind: fv.bind}
						ev = a2.get(phi.Edges[ei])
					}
				}
				if acc == nil {
					acc = ev
				} else {
					acc = iteVal(ins[k].g, ev, acc)
				}
			}
			phiVals[phi] = acc
		}
		for phi, v := range phiVals {
			act.env[phi] = nv(v)
		}
		if _, isHeader := in.loopsOf[fn][b]; isHeader {
			if overflow {
				// unwinding assertion: the loop may continue beyond the bound.  If it can do so with the
				// heap and the loop-carried registers identical to the previous visit of the header, it
				// repeats forever: spin.
				label := fmt.Sprintf("loop in %s", fn)
				kind := "unwind"
				if prev := hdr[b]; prev != nil {
					if eq, ok := in.stateEq(prev, act.st, phiVals); ok && in.sat(bg, eq) {
						kind = "spin"
						label = fmt.Sprintf("loop in %s can repeat forever without changing any state", fn)
					}
				}
				in.obligation(bg, kind, label, True)
				continue
			}
			hdr[b] = &hdrSnap{st: act.st.clone(), phis: phiVals}
		} else if overflow {
			in.obligation(bg, "unwind", fmt.Sprintf("block revisited beyond bound in %s", fn), True)
			continue
		}
		in.blocks++
		func() {
			defer func() {
				if r := recover(); r != nil {
					if _, ok := r.(deadEnd); ok {
						return
					}
					if u, ok := r.(unsupportedErr); ok && !u.checked {
						// an unsupported construct on an infeasible path is not a problem
						g := act.g
						feasible := true
						func() {
							defer func() {
								if recover() != nil {
									feasible = true
								}
							}()
							feasible = g.IsTrue() || in.sat(g)
						}()
						if !feasible {
							return
						}
						u.checked = true
						panic(u)
					}
					panic(r)
				}
			}()
			for _, instr := range b.Instrs {
				if _, ok := instr.(*ssa.Phi); ok {
					continue
				}
				in.curInstr = fn.String() + ": " + instr.String()
				CurWhere = in.curInstr
				in.instrs++
				switch x := instr.(type) {
				case *ssa.If:
					c := act.get(x.Cond).(*Term)
					t, e := b.Succs[0], b.Succs[1]
					pend[t] = append(pend[t], incoming{g: And(act.g, c), st: act.st, env: act.env, pred: b, defers: act.defers})
					pend[e] = append(pend[e], incoming{g: And(act.g, Not(c)), st: act.st.clone(), env: act.env.clone(), pred: b, defers: act.defers})
				case *ssa.Jump:
					pend[b.Succs[0]] = append(pend[b.Succs[0]], incoming{g: act.g, st: act.st, env: act.env, pred: b, defers: act.defers})
				case *ssa.Return:
					var res Value
					switch len(x.Results) {
					case 0:
					case 1:
						res = act.get(x.Results[0])
					default:
						tv := make(TupleV, len(x.Results))
						for i, r := range x.Results {
							tv[i] = act.get(r)
						}
						res = tv
					}
					rets = append(rets, exit{g: act.g, st: act.st, res: res})
				case *ssa.Panic:
					act.mayPanic(True, "explicit panic")
				default:
					act.exec(instr)
				}
			}
		}()
	}
	if len(rets) == 0 {
		return False, st, nil
	}
	var gs []*Term
	var sts []*MState
	for _, r := range rets {
		gs = append(gs, r.g)
		sts = append(sts, r.st)
	}
	var res Value
	for i := len(rets) - 1; i >= 0; i-- {
		if res == nil {
			res = rets[i].res
		} else if rets[i].res != nil {
			res = iteVal(rets[i].g, rets[i].res, res)
		}
	}
	return Or(gs...), in.mergeStates(gs, sts), res
}

func (a *Act) exec(instr ssa.Instruction) {
	in := a.in
	switch x := instr.(type) {
	case *ssa.Alloc:
		a.set(x, ptrTo(a.alloc(in.zeroVal(x.Type().(*types.Pointer).Elem()))))
	case *ssa.Store:
		a.curDesc = descOf(x.Addr)
		a.store(a.get(x.Addr).(PtrV), a.get(x.Val))
	case *ssa.UnOp:
		v := a.get(x.X)
		switch x.Op {
		case token.MUL:
			a.curDesc = descOf(x.X)
			a.set(x, a.load(v.(PtrV)))
		case token.NOT:
			a.set(x, Not(v.(*Term)))
		case token.SUB:
			a.set(x, BvNeg(v.(*Term)))
		case token.XOR:
			a.set(x, BvNot(v.(*Term)))
		default:
			panic(unsupported("unop " + x.Op.String()))
		}
	case *ssa.BinOp:
		a.set(x, a.binop(x.Op, a.get(x.X), a.get(x.Y), x.X.Type()))
	case *ssa.FieldAddr:
		p := a.get(x.X).(PtrV)
		a.mayPanic(p.nilG, "nil dereference (field address)")
		r := PtrV{nilG: False}
		for _, al := range p.alts {
			r.alts = append(r.alts, PtrAlt{g: al.g, obj: al.obj, path: append(append([]int(nil), al.path...), x.Field)})
		}
		a.set(x, r)
	case *ssa.Field:
		a.set(x, a.get(x.X).(StructV).f[x.Field])
	case *ssa.IndexAddr:
		a.set(x, a.indexAddr(x))
	case *ssa.RunDefers:
		for n := len(a.defers); n > 0; n = len(a.defers) {
			d := a.defers[n-1]
			a.defers = a.defers[:n-1]
			a.invoke(d.fn, d.args)
		}
	case *ssa.Defer:
		fn, args := a.prepareCall(&x.Call)
		a.defers = append(append([]deferred(nil), a.defers...), deferred{fn: fn, args: args})
	case *ssa.Call:
		if len(x.Call.Args) > 0 {
			a.curDesc = descOf(x.Call.Args[0]) // atomic.*(addr, ...), delete(m, k), len(m)
			if _, isMap := x.Call.Args[0].Type().Underlying().(*types.Map); isMap {
				a.curDesc = "map " + a.curDesc
			}
		}
		fn, args := a.prepareCall(&x.Call)
		a.set(x, a.invoke(fn, args))
	case *ssa.Go:
		in.events = append(in.events, "go "+x.Call.String())
	case *ssa.MakeInterface:
		a.set(x, IfaceV{alts: []IfaceAlt{{g: True, typ: x.X.Type(), val: a.get(x.X)}}, nilG: False})
	case *ssa.ChangeInterface:
		a.set(x, a.get(x.X))
	case *ssa.ChangeType:
		a.set(x, a.get(x.X))
	case *ssa.Convert:
		if sv, ok := a.get(x.X).(StrV); ok && sv.conc {
			if sl, ok := x.Type().Underlying().(*types.Slice); ok {
				if b, ok := sl.Elem().Underlying().(*types.Basic); ok && b.Kind() == types.Uint8 {
					// []byte("constant")
					arr := ArrayV{e: make([]Value, len(sv.s))}
					for i := range arr.e {
						arr.e[i] = BV(8, uint64(sv.s[i]))
					}
					n := BV(64, uint64(len(sv.s)))
					if len(sv.s) == 0 {
						a.set(x, SliceV{arr: nilPtr(), len: n, cap: n})
					} else {
						a.set(x, SliceV{arr: ptrTo(a.alloc(arr)), len: n, cap: n})
					}
					break
				}
			}
		}
		a.set(x, in.convert(a.get(x.X), x.X.Type(), x.Type()))
	case *ssa.TypeAssert:
		a.set(x, a.typeAssert(x))
	case *ssa.Extract:
		a.set(x, a.get(x.Tuple).(TupleV)[x.Index])
	case *ssa.MakeMap:
		a.set(x, MapV{obj: a.alloc(MapData{})})
	case *ssa.MakeSlice:
		n := a.get(x.Len).(*Term)
		c := a.get(x.Cap).(*Term)
		if !c.IsConst() {
			c = a.concretize(c, "make([]T) capacity")
		}
		et := x.Type().Underlying().(*types.Slice).Elem()
		arr := ArrayV{e: make([]Value, int(c.val))}
		for i := range arr.e {
			arr.e[i] = in.zeroVal(et)
		}
		a.mayPanic(BvCmp("bvugt", n, c), "makeslice: len out of range")
		a.set(x, SliceV{arr: ptrTo(a.alloc(arr)), len: n, cap: c})
	case *ssa.MakeChan:
		a.set(x, ptrTo(a.alloc(ChanData{closed: False})))
	case *ssa.MakeClosure:
		fv := FuncV{fn: x.Fn.(*ssa.Function)}
		for _, b := range x.Bindings {
			fv.bind = append(fv.bind, a.get(b))
		}
		a.set(x, fv)
	case *ssa.Slice:
		a.set(x, a.sliceOp(x))
	case *ssa.Lookup:
		a.curDesc = "map " + descOf(x.X)
		a.set(x, a.lookup(x))
	case *ssa.MapUpdate:
		a.curDesc = "map " + descOf(x.Map)
		m := a.get(x.Map).(MapV)
		a.mayPanic(m.isNil(), "assignment to entry in nil map")
		if len(m.more) == 0 {
			a.mapUpdate(m.obj, a.get(x.Key), a.get(x.Value))
		} else {
			for _, al := range m.alts() {
				a.mapUpdateG(al.obj, a.get(x.Key), a.get(x.Value), al.g)
			}
		}
	case *ssa.Range:
		a.curDesc = "map " + descOf(x.X)
		m := a.get(x.X).(MapV)
		if len(m.more) > 0 {
			panic(unsupported("range over a map that may be one of several objects"))
		}
		n := 0
		if m.obj != 0 {
			n = len(a.st.heap[m.obj].v.(MapData).entries)
		}
		a.set(x, IterV{obj: a.alloc(IterData{m: m.obj, n: n, pos: BV(8, 0), nilG: m.isNil()})})
	case *ssa.Next:
		a.curDesc = "map " + descOf(x.Iter.(*ssa.Range).X)
		a.set(x, a.next(x))
	case *ssa.Select:
		a.set(x, a.selectOp(x))
	case *ssa.DebugRef:
	default:
		panic(unsupported(fmt.Sprintf("instruction %T", instr)))
	}
}

func (a *Act) binop(op token.Token, x, y Value, t types.Type) Value {
	switch op {
	case token.EQL:
		return valEq(x, y)
	case token.NEQ:
		return Not(valEq(x, y))
	}
	if sa, ok := x.(StrV); ok {
		sb := y.(StrV)
		if op == token.ADD {
			if sa.conc && sb.conc {
				return ConcStr(sa.s + sb.s)
			}
			return StrV{id: a.in.fresh("strcat", BVS(32))}
		}
		panic(unsupported("string op " + op.String()))
	}
	p, q := x.(*Term), y.(*Term)
	if p.sort.FP {
		switch op {
		case token.ADD:
			return FPBin("add", p, q)
		case token.SUB:
			return FPBin("sub", p, q)
		case token.MUL:
			return FPBin("mul", p, q)
		case token.QUO:
			return FPBin("div", p, q)
		case token.LSS:
			return FPCmp("lt", p, q)
		case token.LEQ:
			return FPCmp("leq", p, q)
		case token.GTR:
			return FPCmp("gt", p, q)
		case token.GEQ:
			return FPCmp("geq", p, q)
		}
	}
	if p.sort.Bool {
		switch op {
		case token.AND:
			return And(p, q)
		case token.OR:
			return Or(p, q)
		}
	}
	_, signed := intWidth(t)
	if q.sort.W != p.sort.W {
		if q.sort.W < p.sort.W {
			q = ZeroExt(q, p.sort.W)
		} else {
			hi := Extract(q, q.sort.W-1, p.sort.W)
			lo := Extract(q, p.sort.W-1, 0)
			q = Ite(Eq(hi, BV(hi.sort.W, 0)), lo, BV(p.sort.W, uint64(p.sort.W)))
		}
	}
	switch op {
	case token.ADD:
		return BvBin("bvadd", p, q)
	case token.SUB:
		return BvBin("bvsub", p, q)
	case token.MUL:
		return BvBin("bvmul", p, q)
	case token.QUO, token.REM:
		a.mayPanic(Eq(q, BV(q.sort.W, 0)), "integer divide by zero")
		n := map[bool]map[token.Token]string{true: {token.QUO: "bvsdiv", token.REM: "bvsrem"}, false: {token.QUO: "bvudiv", token.REM: "bvurem"}}[signed][op]
		return BvBin(n, p, q)
	case token.AND:
		return BvBin("bvand", p, q)
	case token.OR:
		return BvBin("bvor", p, q)
	case token.XOR:
		return BvBin("bvxor", p, q)
	case token.AND_NOT:
		return BvBin("bvand", p, BvNot(q))
	case token.SHL:
		return BvBin("bvshl", p, q)
	case token.SHR:
		if signed {
			return BvBin("bvashr", p, q)
		}
		return BvBin("bvlshr", p, q)
	case token.LSS, token.LEQ, token.GTR, token.GEQ:
		n := map[token.Token]string{token.LSS: "lt", token.LEQ: "le", token.GTR: "gt", token.GEQ: "ge"}[op]
		if signed {
			return BvCmp("bvs"+n, p, q)
		}
		return BvCmp("bvu"+n, p, q)
	}
	panic(unsupported("binop " + op.String()))
}

func isFloat(t types.Type) bool {
	b, ok := t.Underlying().(*types.Basic)
	return ok && b.Info()&types.IsFloat != 0
}

func (in *Interp) convert(v Value, from, to types.Type) Value {
	if isInt(from) && isFloat(to) {
		x := v.(*Term)
		if w, signed := intWidth(from); w < 64 {
			if signed {
				x = SignExt(x, 64)
			} else {
				x = ZeroExt(x, 64)
			}
		}
		return FPFromSBV(x)
	}
	if isFloat(from) && isInt(to) {
		in.floatToInt = append(in.floatToInt, v.(*Term))
		return FPToSBV(v.(*Term))
	}
	if isFloat(from) && isFloat(to) {
		return v
	}
	if isInt(from) && isInt(to) {
		fw, fs := intWidth(from)
		tw, _ := intWidth(to)
		x := v.(*Term)
		switch {
		case tw == fw:
			return x
		case tw < fw:
			return Extract(x, tw-1, 0)
		case fs:
			return SignExt(x, tw)
		default:
			return ZeroExt(x, tw)
		}
	}
	if _, ok := v.(PtrV); ok {
		return v
	}
	if _, ok := v.(StrV); ok {
		if b, ok := to.Underlying().(*types.Basic); ok && b.Info()&types.IsString != 0 {
			return v
		}
	}
	if _, ok := v.(SliceV); ok {
		if b, ok := to.Underlying().(*types.Basic); ok && b.Info()&types.IsString != 0 {
			return StrV{id: in.fresh("bytes2str", BVS(32))}
		}
	}
	panic(unsupported(fmt.Sprintf("convert %s -> %s", from, to)))
}

func (a *Act) typeAssert(x *ssa.TypeAssert) Value {
	iv := a.get(x.X).(IfaceV)
	if it, toIface := x.AssertedType.Underlying().(*types.Interface); toIface {
		// the dynamic type must implement the asserted interface (opaque stand-ins do by construction)
		ok := False
		for _, al := range iv.alts {
			if _, opaque := al.val.(OpaqueV); opaque || al.typ == nil || types.Implements(al.typ, it) {
				ok = Or(ok, al.g)
			}
		}
		if len(iv.alts) == 0 {
			ok = Not(iv.nilG)
		}
		ok = And(ok, Not(iv.nilG))
		if x.CommaOk {
			return TupleV{iteVal(ok, iv, nilIface()), ok}
		}
		a.mayPanic(iv.nilG, "interface conversion: nil")
		return iv
	}
	ok := False
	var val Value = a.in.zeroVal(x.AssertedType)
	for _, al := range iv.alts {
		if types.Identical(al.typ, x.AssertedType) {
			ok = Or(ok, al.g)
			val = iteVal(al.g, al.val, val)
		}
	}
	if x.CommaOk {
		return TupleV{val, ok}
	}
	a.mayPanic(Not(ok), "interface conversion: "+x.String())
	return val
}

func (a *Act) arrLen(al PtrAlt) int { return len(navigate(a.st.heap[al.obj].v, al.path).(ArrayV).e) }

func (a *Act) sliceBounds(s SliceV) int {
	max := 0
	for _, al := range s.arr.alts {
		if n := a.arrLen(al) - s.off; n > max {
			max = n
		}
	}
	return max
}

func (a *Act) indexAddr(x *ssa.IndexAddr) Value {
	base := a.get(x.X)
	idx := a.get(x.Index).(*Term)
	if idx.sort.W != 64 {
		idx = SignExt(idx, 64)
	}
	var arr PtrV
	off, maxN := 0, 0
	var n *Term
	switch b := base.(type) {
	case PtrV:
		a.mayPanic(b.nilG, "nil dereference (index address)")
		arr = b
		maxN = a.arrLen(arr.alts[0])
		n = BV(64, uint64(maxN))
	case SliceV:
		arr, off, n = b.arr, b.off, b.len
		maxN = a.sliceBounds(b)
	}
	a.mayPanic(Not(BvCmp("bvult", idx, n)), "index out of range")
	r := PtrV{nilG: False}
	if idx.IsConst() {
		for _, al := range arr.alts {
			if off+int(idx.val) < a.arrLen(al) {
				r.alts = append(r.alts, PtrAlt{g: al.g, obj: al.obj, path: append(append([]int(nil), al.path...), off+int(idx.val))})
			}
		}
		return r
	}
	for i := 0; i < maxN; i++ {
		gi := Eq(idx, BV(64, uint64(i)))
		for _, al := range arr.alts {
			if off+i < a.arrLen(al) {
				r.alts = append(r.alts, PtrAlt{g: And(al.g, gi), obj: al.obj, path: append(append([]int(nil), al.path...), off+i)})
			}
		}
	}
	return normPtr(r)
}

// sliceStr: s[lo:hi] on a concrete string or a choice among constants, with constant bounds.
func (a *Act) sliceStr(x *ssa.Slice, sv StrV) Value {
	bound := func(v ssa.Value, def int) int {
		if v == nil {
			return def
		}
		t := a.get(v).(*Term)
		if !t.IsConst() {
			panic(unsupported("string slice with a symbolic bound"))
		}
		return int(sext(t.val, t.sort.W))
	}
	one := func(str string, g *Term) string {
		lo, hi := bound(x.Low, 0), bound(x.High, len(str))
		if lo < 0 || hi > len(str) || lo > hi {
			a.in.obligation(And(a.g, g), "panic", "slice bounds out of range (string) in "+a.fn.String(), True)
			return ""
		}
		return str[lo:hi]
	}
	if sv.conc {
		return ConcStr(one(sv.s, True))
	}
	leaves, ok := iteLeaves(sv.id, 32)
	if !ok {
		panic(unsupported("slice of a symbolic string"))
	}
	res := map[uint64]string{}
	for _, l := range leaves {
		str, ok := strByID(l.val)
		if !ok {
			panic(unsupported("slice of an unknown string id"))
		}
		res[l.val] = one(str, Eq(sv.id, l))
	}
	return StrV{id: mapStrLeaves(sv.id, func(s string) string { id, _ := strIntern[s]; return res[id] })}
}

// concretize replaces a term that is an ite-tree over constants by its only feasible leaf under the current guard.
func (a *Act) concretize(t *Term, what string) *Term {
	leaves := map[uint64]bool{}
	var walk func(x *Term) bool
	walk = func(x *Term) bool {
		if x.IsConst() {
			leaves[x.val] = true
			return true
		}
		if x.op == "ite" {
			return walk(x.args[1]) && walk(x.args[2])
		}
		return false
	}
	if !walk(t) {
		panic(unsupported("symbolic " + what))
	}
	var only *Term
	for v := range leaves {
		c := BV(t.sort.W, v)
		if a.in.sat(a.g, Eq(t, c)) {
			if only != nil {
				panic(unsupported("several feasible values for " + what))
			}
			only = c
		}
	}
	if only == nil {
		a.kill()
	}
	return only
}

func (a *Act) sliceOp(x *ssa.Slice) Value {
	base := a.get(x.X)
	if sv, ok := base.(StrV); ok {
		return a.sliceStr(x, sv)
	}
	lo := 0
	if x.Low != nil {
		t := a.get(x.Low).(*Term)
		if !t.IsConst() {
			t = a.concretize(t, "slice low")
		}
		lo = int(t.val)
	}
	var hiT *Term
	if x.High != nil {
		hiT = a.get(x.High).(*Term)
	}
	switch b := base.(type) {
	case PtrV:
		a.mayPanic(b.nilG, "nil dereference (slice of array)")
		n := a.arrLen(b.alts[0])
		if hiT == nil {
			hiT = BV(64, uint64(n))
		}
		a.mayPanic(BvCmp("bvugt", hiT, BV(64, uint64(n))), "slice bounds out of range")
		return SliceV{arr: b, off: lo, len: BvBin("bvsub", hiT, BV(64, uint64(lo))), cap: BV(64, uint64(n-lo))}
	case SliceV:
		if hiT == nil {
			hiT = b.len
		}
		a.mayPanic(BvCmp("bvugt", hiT, b.cap), "slice bounds out of range")
		return SliceV{arr: b.arr, off: b.off + lo, len: BvBin("bvsub", hiT, BV(64, uint64(lo))), cap: BvBin("bvsub", b.cap, BV(64, uint64(lo)))}
	}
	panic(unsupported(fmt.Sprintf("slice of %T", base)))
}

// ---------- maps ----------

func (a *Act) lookup(x *ssa.Lookup) Value {
	mv, isMap := a.get(x.X).(MapV)
	if !isMap {
		panic(unsupported("string index"))
	}
	key := a.get(x.Index)
	val, ok := a.in.zeroVal(x.X.Type().Underlying().(*types.Map).Elem()), False
	for _, al := range mv.alts() {
		a.recordMap(al.obj, false)
		for _, e := range a.st.heap[al.obj].v.(MapData).entries {
			c := And(e.present, valEq(e.key, key), al.g)
			val = iteVal(c, e.val, val)
			ok = Or(ok, c)
		}
	}
	if x.CommaOk {
		return TupleV{val, ok}
	}
	return val
}

// iteLeaves collects the distinct constant leaves of an ite-tree (ok=false if a leaf is not constant).
func iteLeaves(t *Term, max int) ([]*Term, bool) {
	seen := map[*Term]bool{}
	var out []*Term
	var walk func(x *Term) bool
	walk = func(x *Term) bool {
		if x.IsConst() {
			if !seen[x] {
				seen[x] = true
				out = append(out, x)
			}
			return len(out) <= max
		}
		if x.op == "ite" {
			return walk(x.args[1]) && walk(x.args[2])
		}
		return false
	}
	if !walk(t) {
		return nil, false
	}
	return out, true
}

func strByID(id uint64) (string, bool) {
	for s, i := range strIntern {
		if i == id || (id == 0 && s == "") {
			return s, true
		}
	}
	return "", false
}

func (a *Act) mapUpdate(obj int, key, v Value) {
	// a string key that is a choice among constants updates the constant-key slots under the
	// respective conditions, so that map slots keep concrete keys
	if sk, ok := key.(StrV); ok && !sk.conc && sk.id.op == "ite" {
		if leaves, ok := iteLeaves(sk.id, 8); ok {
			var ks []StrV
			all := true
			for _, l := range leaves {
				str, ok := strByID(l.val)
				if !ok {
					all = false
					break
				}
				ks = append(ks, ConcStr(str))
			}
			if all {
				for i, l := range leaves {
					a.mapUpdateG(obj, ks[i], v, Eq(sk.id, l))
				}
				return
			}
		}
	}
	a.mapUpdateG(obj, key, v, True)
}

// mapUpdateG performs m[key] = v under condition cond.
func (a *Act) mapUpdateG(obj int, key, v Value, cond *Term) {
	if cond.IsFalse() {
		return
	}
	a.recordMap(obj, true)
	md := a.st.heap[obj].v.(MapData)
	ne := make([]MapEntry, len(md.entries))
	copy(ne, md.entries)
	hit := False
	same := -1
	for i, e := range ne {
		eq := valEq(e.key, key)
		if eq.IsTrue() && same < 0 {
			same = i
			continue
		}
		c := And(e.present, eq)
		ne[i].val = iteVal(And(c, cond), v, e.val)
		hit = Or(hit, c)
	}
	if same >= 0 {
		if ne[same].present.IsFalse() {
			ne[same].val = v
		} else {
			ne[same].val = iteVal(cond, v, ne[same].val)
		}
		ne[same].present = Or(ne[same].present, And(cond, Not(hit)))
	} else if !hit.IsTrue() {
		ne = append(ne, MapEntry{key: key, present: And(cond, Not(hit)), val: v})
	}
	a.st.heap[obj] = nv(MapData{entries: ne})
}

func (a *Act) mapDelete(obj int, key Value) {
	a.recordMap(obj, true)
	md := a.st.heap[obj].v.(MapData)
	ne := make([]MapEntry, len(md.entries))
	copy(ne, md.entries)
	for i, e := range ne {
		ne[i].present = And(e.present, Not(valEq(e.key, key)))
	}
	a.st.heap[obj] = nv(MapData{entries: ne})
}

// next yields the first slot >= pos that is present now.
func (a *Act) next(x *ssa.Next) Value {
	it := a.get(x.Iter).(IterV)
	d := a.st.heap[it.obj].v.(IterData)
	a.recordMap(d.m, false)
	mt := x.Iter.(*ssa.Range).X.Type().Underlying().(*types.Map)
	ok := False
	var key, val Value = a.in.zeroVal(mt.Key()), a.in.zeroVal(mt.Elem())
	npos := BV(8, uint64(d.n))
	if d.m != 0 {
		entries := a.st.heap[d.m].v.(MapData).entries
		noneBefore := True
		type selT struct {
			c *Term
			i int
		}
		var sels []selT
		for i := 0; i < d.n; i++ {
			cand := And(BvCmp("bvule", d.pos, BV(8, uint64(i))), entries[i].present)
			if d.nilG != nil {
				cand = And(cand, Not(d.nilG))
			}
			sel := And(noneBefore, cand)
			sels = append(sels, selT{sel, i})
			noneBefore = And(noneBefore, Not(cand))
		}
		for k := len(sels) - 1; k >= 0; k-- {
			s := sels[k]
			ok = Or(ok, s.c)
			key = iteVal(s.c, entries[s.i].key, key)
			val = iteVal(s.c, entries[s.i].val, val)
			npos = Ite(s.c, BV(8, uint64(s.i+1)), npos)
		}
	}
	a.st.heap[it.obj] = nv(IterData{m: d.m, n: d.n, pos: npos, nilG: d.nilG})
	return TupleV{ok, key, val}
}

// ---------- calls ----------

type invokeTarget struct {
	recv   IfaceV
	method *types.Func
}

func (a *Act) prepareCall(c *ssa.CallCommon) (Value, []Value) {
	var args []Value
	for _, x := range c.Args {
		args = append(args, a.get(x))
	}
	if c.IsInvoke() {
		return invokeTarget{recv: a.get(c.Value).(IfaceV), method: c.Method}, args
	}
	return a.get(c.Value), args
}

func (a *Act) invoke(fn Value, args []Value) Value {
	in := a.in
	switch t := fn.(type) {
	case invokeTarget:
		a.mayPanic(t.recv.nilG, "nil interface method call "+t.method.Name())
		if len(t.recv.alts) == 1 {
			return a.invokeAlt(t.recv.alts[0], t.method, args)
		}
		// one guarded execution per dynamic type, merged afterwards
		var gs []*Term
		var sts []*MState
		var res Value
		baseG, baseSt := a.g, a.st
		for i := len(t.recv.alts) - 1; i >= 0; i-- {
			al := t.recv.alts[i]
			a.g, a.st = And(baseG, al.g), baseSt.clone()
			if !in.satK("ifacealt", a.g) {
				continue
			}
			var r Value
			func() {
				defer func() {
					if rr := recover(); rr != nil {
						if _, ok := rr.(deadEnd); !ok {
							panic(rr)
						}
					}
				}()
				r = a.invokeAlt(al, t.method, args)
			}()
			if a.g.IsFalse() {
				continue
			}
			gs = append(gs, a.g)
			sts = append(sts, a.st)
			if res == nil {
				res = r
			} else if r != nil {
				res = iteVal(al.g, r, res)
			}
		}
		if len(gs) == 0 {
			a.kill()
		}
		a.g, a.st = Or(gs...), in.mergeStates(gs, sts)
		if len(gs) > 1 {
			a.st = a.st.clone()
		}
		return res
	case FuncV:
		return a.callFunc(t, args)
	}
	panic(unsupported(fmt.Sprintf("call of %T", fn)))
}

func (a *Act) invokeAlt(al IfaceAlt, method *types.Func, args []Value) Value {
	in := a.in
	if al.typ == in.opaqueType("valueCtx") {
		node := a.load(al.val.(PtrV)).(StructV)
		parent := node.f[0].(IfaceV)
		var fromParent Value
		if len(parent.alts) == 0 {
			sig := method.Type().(*types.Signature)
			if sig.Results().Len() == 1 {
				fromParent = in.zeroVal(sig.Results().At(0).Type())
			} else if sig.Results().Len() > 1 {
				fromParent = in.zeroVal(sig.Results())
			}
		} else {
			fromParent = a.invoke(invokeTarget{recv: IfaceV{alts: parent.alts, nilG: False}, method: method}, args)
		}
		if method.Name() == "Value" {
			return iteVal(valEq(node.f[1], args[0]), node.f[2], fromParent)
		}
		return fromParent
	}
	if al.typ == in.opaqueType("crc32") {
		// a hash.Hash32 made by crc32.New: its sum is the checksum of the data (the same value the
		// crc32.Checksum intrinsic yields) iff exactly one Write happened since the last Reset;
		// anything else written in between (an overlapping user of a shared object) makes it arbitrary
		p := al.val.(PtrV)
		id := p.alts[0].obj
		st := a.st.heap[id].v.(StructV)
		poly, n, sum := st.f[0].(*Term), st.f[1].(*Term), st.f[2].(*Term)
		switch method.Name() {
		case "Reset":
			a.st.heap[id] = nv(Value(StructV{f: []Value{poly, BV(8, 0), BV(32, 0)}}))
			in.events = append(in.events, "crc32 hash Reset")
			return nil
		case "Write":
			sl := args[0].(SliceV)
			first := Eq(n, BV(8, 0))
			var crcv *Term
			if !(first.IsConst() && first.val == 0) {
				crcv = in.crcRecord(sl, poly)
			}
			in.events = append(in.events, fmt.Sprintf("crc32 hash Write(data=obj%d off=%d)", sl.arr.alts[0].obj, sl.off))
			if crcv == nil {
				crcv = in.fresh("crcmixed", BVS(32))
			}
			nsum := Ite(first, crcv, in.fresh("crcmixed", BVS(32)))
			a.st.heap[id] = nv(Value(StructV{f: []Value{poly, BvBin("bvadd", n, BV(8, 1)), nsum}}))
			return TupleV{sl.len, nilIface()}
		case "Sum32":
			return sum
		}
		panic(unsupported("crc32 hash method " + method.Name()))
	}
	if al.typ == in.opaqueType("sha256") {
		p := al.val.(PtrV)
		id := p.alts[0].obj
		switch method.Name() {
		case "Write":
			sl := args[0].(SliceV)
			in.hashWrites[id] = append(in.hashWrites[id], sl)
			return TupleV{sl.len, nilIface()}
		case "Sum":
			arr := ArrayV{e: make([]Value, 32)}
			for i := range arr.e {
				arr.e[i] = in.fresh("sha256", BVS(8))
			}
			out := a.alloc(arr)
			if in.hashSums == nil {
				in.hashSums = map[int]int{}
			}
			in.hashSums[out] = id
			return SliceV{arr: ptrTo(out), len: BV(64, 32), cap: BV(64, 32)}
		}
		panic(unsupported("sha256 method " + method.Name()))
	}
	if ov, ok := al.val.(OpaqueV); ok {
		in.stubs["opaque."+method.Name()]++
		sig := method.Type().(*types.Signature)
		if sig.Results().Len() == 0 {
			return nil
		}
		return in.havoc(sig.Results().At(0).Type(), ov.tag+"."+method.Name())
	}
	m := in.prog.LookupMethod(al.typ, method.Pkg(), method.Name())
	if m == nil {
		panic(unsupported("no method " + method.Name() + " on " + al.typ.String()))
	}
	return a.callFunc(FuncV{fn: m}, append([]Value{al.val}, args...))
}

func (in *Interp) havoc(t types.Type, name string) Value {
	switch u := t.Underlying().(type) {
	case *types.Basic:
		switch {
		case u.Info()&types.IsBoolean != 0:
			return in.fresh(name, BoolSort)
		case u.Info()&types.IsInteger != 0:
			w, _ := intWidth(t)
			return in.fresh(name, BVS(w))
		case u.Info()&types.IsString != 0:
			return StrV{id: in.fresh(name, BVS(32))}
		}
	}
	panic(unsupported("havoc " + t.String()))
}

// runAlternatives executes each alternative under its guard on a copy of the state and merges the results.
func (a *Act) runAlternatives(guards []*Term, runs []func() Value) Value {
	in := a.in
	var gs []*Term
	var sts []*MState
	var res Value
	baseG, baseSt := a.g, a.st
	for i := len(runs) - 1; i >= 0; i-- {
		a.g, a.st = And(baseG, guards[i]), baseSt.clone()
		if !in.sat(a.g) {
			continue
		}
		var r Value
		func() {
			defer func() {
				if rr := recover(); rr != nil {
					if _, ok := rr.(deadEnd); !ok {
						panic(rr)
					}
				}
			}()
			r = runs[i]()
		}()
		if a.g.IsFalse() {
			continue
		}
		gs = append(gs, a.g)
		sts = append(sts, a.st)
		if res == nil {
			res = r
		} else if r != nil {
			res = iteVal(guards[i], r, res)
		}
	}
	if len(gs) == 0 {
		a.kill()
	}
	a.g, a.st = Or(gs...), in.mergeStates(gs, sts)
	if len(gs) > 1 {
		a.st = a.st.clone()
	}
	return res
}

func (a *Act) callFunc(fv FuncV, args []Value) Value {
	in := a.in
	if len(fv.others) > 0 {
		a.mayPanic(fv.nilGuard(), "call of nil func")
		var guards []*Term
		var runs []func() Value
		rest := True
		// later-added alternatives take precedence
		for i := len(fv.others) - 1; i >= 0; i-- {
			o := fv.others[i]
			g := And(rest, o.g)
			rest = And(rest, Not(o.g))
			f := o.f
			f.nilG = nil
			guards = append(guards, g)
			runs = append(runs, func() Value { return a.callFunc(f, args) })
		}
		def := fv
		def.others, def.nilG = nil, nil
		if !def.isNilConst() {
			guards = append(guards, rest)
			runs = append(runs, func() Value { return a.callFunc(def, args) })
		}
		return a.runAlternatives(guards, runs)
	}
	name := fv.name
	if fv.fn != nil {
		name = fv.fn.String()
	}
	a.mayPanic(fv.nilGuard(), "call of nil func")
	if strings.HasPrefix(name, "builtin:") {
		return a.builtin(name[8:], args)
	}
	if res, ok := a.intrinsic(name, fv, args); ok {
		in.stubs[name]++
		return res
	}
	if fv.fn.Name() == "init" && fv.fn.Pkg != nil && a.fn.Name() == "init" && fv.fn.Pkg != a.fn.Pkg {
		return nil // initialisers of imported packages are not executed
	}
	if fv.fn.Blocks == nil {
		panic(unsupported("no body: " + name))
	}
	// receiver splitting: a method called on a union of objects runs once per object under its guard
	if fv.fn.Signature.Recv() != nil && len(args) > 0 {
		if p, ok := args[0].(PtrV); ok && len(p.alts) > 1 {
			var guards []*Term
			var runs []func() Value
			if !p.nilG.IsFalse() {
				// a nil pointer receiver is legal: the method body decides (generated getters test for it)
				guards = append(guards, p.nilG)
				runs = append(runs, func() Value {
					return a.callFunc(fv, append([]Value{nilPtr()}, args[1:]...))
				})
			}
			for _, al := range p.alts {
				al := al
				guards = append(guards, al.g)
				runs = append(runs, func() Value {
					na := append([]Value{PtrV{alts: []PtrAlt{{g: True, obj: al.obj, path: al.path}}, nilG: False}}, args[1:]...)
					return a.callFunc(fv, na)
				})
			}
			return a.runAlternatives(guards, runs)
		}
	}
	g, st, res := in.callFn(fv, args, a.g, a.st, a.depth+1)
	a.g, a.st = g, st
	if g.IsFalse() {
		panic(deadEnd{})
	}
	return res
}

func (a *Act) builtin(name string, args []Value) Value {
	switch name {
	case "len":
		switch x := args[0].(type) {
		case SliceV:
			return x.len
		case StrV:
			if x.conc {
				return BV(64, uint64(len(x.s)))
			}
			return ZeroExt(Var(fmt.Sprintf("strlen!%d", x.id.id), BVS(16)), 64)
		case MapV:
			n := BV(64, 0)
			for _, al := range x.alts() {
				a.recordMap(al.obj, false) // len(m) reads the map header
				for _, e := range a.st.heap[al.obj].v.(MapData).entries {
					n = BvBin("bvadd", n, Ite(And(e.present, al.g), BV(64, 1), BV(64, 0)))
				}
			}
			return n
		}
	case "cap":
		return args[0].(SliceV).cap
	case "delete":
		m := args[0].(MapV)
		if len(m.more) > 0 {
			panic(unsupported("delete on a map that may be one of several objects"))
		}
		if m.obj != 0 {
			if !m.isNil().IsFalse() {
				panic(unsupported("delete on a possibly nil map"))
			}
			a.mapDelete(m.obj, args[1])
		}
		return nil
	case "close":
		c := args[0].(PtrV)
		a.mayPanic(c.nilG, "close of nil channel")
		anyClosed := False
		for _, al := range c.alts {
			anyClosed = Or(anyClosed, And(al.g, a.st.heap[al.obj].v.(ChanData).closed))
		}
		a.mayPanic(anyClosed, "close of closed channel")
		for _, al := range c.alts {
			cd := a.st.heap[al.obj].v.(ChanData)
			a.st.heap[al.obj] = nv(ChanData{closed: Ite(al.g, True, cd.closed), ticker: cd.ticker})
		}
		return nil
	case "append":
		return a.appendOp(args[0].(SliceV), args[1].(SliceV))
	}
	panic(unsupported("builtin " + name))
}

func (a *Act) sliceElem(s SliceV, i int) Value {
	var res Value
	for k := len(s.arr.alts) - 1; k >= 0; k-- {
		al := s.arr.alts[k]
		arr := navigate(a.st.heap[al.obj].v, al.path).(ArrayV)
		if s.off+i >= len(arr.e) {
			continue
		}
		if res == nil {
			res = arr.e[s.off+i]
		} else {
			res = iteVal(al.g, arr.e[s.off+i], res)
		}
	}
	return res
}

// appendInPlace is Go's append with its aliasing behaviour (flag "appendCaps"): when the result fits
// into cap(x) the elements are written into x's backing array and the result shares it; otherwise a
// new array is allocated whose capacity is ANY value in [needed, needed+appendSlack] (the language
// does not fix the growth policy).  The default appendOp below always copies.
const appendSlack = 6

func (a *Act) appendInPlace(x, y SliceV) Value {
	in := a.in
	ma, mb := a.sliceBounds(x), a.sliceBounds(y)
	if x.len.IsConst() {
		ma = int(x.len.val)
	}
	if y.len.IsConst() {
		mb = int(y.len.val)
	}
	n := ma + mb
	if n == 0 {
		return x
	}
	newLen := BvBin("bvadd", x.len, y.len)
	fits := BvCmp("bvule", newLen, x.cap)
	if len(x.arr.alts) == 0 {
		fits = False
	}
	var proto Value
	if ma > 0 {
		proto = a.sliceElem(x, 0)
	} else {
		proto = a.sliceElem(y, 0)
	}
	// the grown copy (built first: it reads x before the in-place writes)
	arr := ArrayV{e: make([]Value, x.off+n+appendSlack)}
	for i := range arr.e {
		arr.e[i] = zeroLike(proto)
	}
	for i := 0; i < n; i++ {
		var v Value = zeroLike(proto)
		for j := 0; j < mb; j++ {
			if i-j >= 0 && i-j <= ma {
				v = iteVal(Eq(x.len, BV(64, uint64(i-j))), a.sliceElem(y, j), v)
			}
		}
		if i < ma {
			v = iteVal(BvCmp("bvugt", x.len, BV(64, uint64(i))), a.sliceElem(x, i), v)
		}
		arr.e[x.off+i] = v
	}
	ys := make([]Value, mb)
	for j := range ys {
		ys[j] = a.sliceElem(y, j)
	}
	// in-place writes into every backing array x may have
	for _, al := range x.arr.alts {
		root := a.st.heap[al.obj].v
		old := navigate(root, al.path).(ArrayV)
		upd := ArrayV{e: append([]Value{}, old.e...)}
		for i := 0; i <= ma; i++ {
			for j := 0; j < mb; j++ {
				p := x.off + i + j
				if p >= len(upd.e) {
					continue
				}
				c := And(fits, al.g, Eq(x.len, BV(64, uint64(i))), BvCmp("bvugt", y.len, BV(64, uint64(j))))
				upd.e[p] = iteVal(c, ys[j], upd.e[p])
			}
		}
		a.st.heap[al.obj] = nv(update(root, al.path, upd))
	}
	capv := in.fresh("appendcap", BVS(64))
	in.solver.Assert(And(BvCmp("bvuge", capv, newLen), BvCmp("bvule", capv, BvBin("bvadd", newLen, BV(64, appendSlack)))))
	res := PtrV{nilG: And(x.arr.nilG, fits)}
	for _, al := range x.arr.alts {
		res.alts = append(res.alts, PtrAlt{g: And(al.g, fits), obj: al.obj, path: al.path})
	}
	res.alts = append(res.alts, PtrAlt{g: Not(fits), obj: a.alloc(arr)})
	return SliceV{arr: res, off: x.off, len: newLen, cap: Ite(fits, x.cap, capv)}
}

func (a *Act) appendOp(x, y SliceV) Value {
	if a.in.flags["appendCaps"] {
		return a.appendInPlace(x, y)
	}
	ma, mb := a.sliceBounds(x), a.sliceBounds(y)
	if x.len.IsConst() {
		ma = int(x.len.val)
	}
	if y.len.IsConst() {
		mb = int(y.len.val)
	}
	n := ma + mb
	if n == 0 {
		return x
	}
	var proto Value
	if ma > 0 {
		proto = a.sliceElem(x, 0)
	} else {
		proto = a.sliceElem(y, 0)
	}
	arr := ArrayV{e: make([]Value, n)}
	for i := 0; i < n; i++ {
		var v Value = zeroLike(proto)
		for j := 0; j < mb; j++ {
			if i-j >= 0 && i-j <= ma {
				v = iteVal(Eq(x.len, BV(64, uint64(i-j))), a.sliceElem(y, j), v)
			}
		}
		if i < ma {
			v = iteVal(BvCmp("bvugt", x.len, BV(64, uint64(i))), a.sliceElem(x, i), v)
		}
		arr.e[i] = v
	}
	return SliceV{arr: ptrTo(a.alloc(arr)), len: BvBin("bvadd", x.len, y.len), cap: BV(64, uint64(n))}
}

func zeroLike(v Value) Value {
	switch x := v.(type) {
	case *Term:
		if x.sort.Bool {
			return False
		}
		return BV(x.sort.W, 0)
	case StrV:
		return ConcStr("")
	case PtrV:
		return nilPtr()
	case IfaceV:
		return nilIface()
	case StructV:
		r := StructV{f: make([]Value, len(x.f))}
		for i := range x.f {
			r.f[i] = zeroLike(x.f[i])
		}
		return r
	}
	panic(unsupported(fmt.Sprintf("zeroLike %T", v)))
}

func sortedKeys(m map[string]int) []string {
	var ks []string
	for k := range m {
		ks = append(ks, k)
	}
	sort.Strings(ks)
	return ks
}

// blockingPoint: the call is about to block (select / cond.Wait).  It must hold no lock (it would
// delay every other call), and other goroutines run meanwhile: the harness hook verifOnBlock, if
// any, havocs the shared state (pattern P3).
func (a *Act) blockingPoint(what string) {
	in := a.in
	held := False
	for k := range a.st.locks {
		w, r := a.lockState(k)
		held = Or(held, w, Not(Eq(r, BV(8, 0))))
	}
	in.obligation(a.g, "deadlock", what+" while holding a lock in "+a.fn.String(), held)
	in.events = append(in.events, "block: "+what+" in "+a.fn.Name())
	if hook := in.harnessPkg.Func("verifOnBlock"); hook != nil && !in.inHook {
		in.inHook = true
		a.callFunc(FuncV{fn: hook}, nil)
		in.inHook = false
	}
}

// selectOp models select over receive cases: a closed channel is ready, a ticker channel may be
// ready, an open ordinary channel never is (single-goroutine harness; senders are not modelled).
func (a *Act) selectOp(x *ssa.Select) Value {
	in := a.in
	for _, st := range x.States {
		if st.Dir != types.RecvOnly {
			panic(unsupported("select with a send case"))
		}
	}
	if x.Blocking {
		a.blockingPoint("select")
	}
	// busy wait: a receive case on the very channel object that was already closed when this select
	// was left the previous time returns at once, again and again, without any event in between
	if x.Blocking {
		if in.selClosed == nil {
			in.selClosed = map[ssa.Instruction]map[int]*Term{}
		}
		prev := in.selClosed[x]
		stale := False
		for _, st := range x.States {
			for _, al := range a.get(st.Chan).(PtrV).alts {
				if pc, ok := prev[al.obj]; ok {
					stale = Or(stale, And(al.g, pc, a.st.heap[al.obj].v.(ChanData).closed))
				}
			}
		}
		in.obligation(a.g, "spin", "select waits again on the closed channel it was just woken by (busy wait) in "+a.fn.String(), stale)
	}
	idx := in.fresh("select", BVS(64))
	anyReady := False
	closedReady := False
	pickFirstClosed := True // used when the harness asks for a fair resolution
	var conds []*Term
	for i, st := range x.States {
		ch := a.get(st.Chan).(PtrV)
		ready := False
		closedHere := False
		for _, al := range ch.alts {
			cd := a.st.heap[al.obj].v.(ChanData)
			if cd.ticker {
				ready = Or(ready, And(al.g, in.fresh("tick", BoolSort)))
			}
			ready = Or(ready, And(al.g, cd.closed))
			closedHere = Or(closedHere, And(al.g, cd.closed))
		}
		conds = append(conds, And(Eq(idx, BV(64, uint64(i))), ready))
		anyReady = Or(anyReady, ready)
		_ = pickFirstClosed
		closedReady = Or(closedReady, closedHere)
	}
	if !x.Blocking {
		conds = append(conds, Eq(idx, BV(64, ^uint64(0))))
		anyReady = True
	}
	canEver := closedReady
	for _, st := range x.States {
		for _, al := range a.get(st.Chan).(PtrV).alts {
			if a.st.heap[al.obj].v.(ChanData).ticker {
				canEver = Or(canEver, al.g)
			}
		}
	}
	if !x.Blocking {
		canEver = True
	}
	a.deadlockIf(Not(canEver), "select with no case that can ever become ready")
	if os.Getenv("VERIF_DEBUG_SELECT") != "" {
		fmt.Printf("select: guard-sat=%v closedReady-sat=%v fair=%v\n", in.sat(a.g), in.sat(a.g, closedReady), in.fairSelect)
	}
	in.assume(Implies(a.g, Or(conds...)))
	if in.fairSelect {
		// fairness: a case whose channel is closed is eventually chosen; resolve towards the first one
		first := False
		none := True
		for i, st := range x.States {
			ch := a.get(st.Chan).(PtrV)
			cl := False
			for _, al := range ch.alts {
				cl = Or(cl, And(al.g, a.st.heap[al.obj].v.(ChanData).closed))
			}
			first = Or(first, And(none, cl, Eq(idx, BV(64, uint64(i)))))
			none = And(none, Not(cl))
		}
		in.assume(Implies(And(a.g, closedReady), first))
	}
	if x.Blocking {
		now := map[int]*Term{}
		for i, st := range x.States {
			for _, al := range a.get(st.Chan).(PtrV).alts {
				// the case that was taken, on a channel that was closed
				c := And(a.g, al.g, a.st.heap[al.obj].v.(ChanData).closed, Eq(idx, BV(64, uint64(i))))
				if old, ok := now[al.obj]; ok {
					c = Or(old, c)
				}
				now[al.obj] = c
			}
		}
		in.selClosed[x] = now
	}
	res := TupleV{idx, False}
	for _, st := range x.States {
		ct := st.Chan.Type().Underlying().(*types.Chan)
		res = append(res, in.zeroVal(ct.Elem()))
	}
	return res
}

// labelFor reports whether an assertion label ("C01,C08: text") concerns property id; labels
// without a property prefix (harness sanity checks) concern every property.
func labelFor(label, id string) bool {
	i := strings.Index(label, ":")
	if i < 0 || !strings.HasPrefix(label, "C") {
		return true
	}
	for _, x := range strings.Split(label[:i], ",") {
		if strings.TrimSpace(x) == id {
			return true
		}
	}
	return false
}
